"""C15: strength scaling (scale_strength) and the scheduled transform (KDScheduledTransform).

(M) specs/StrengthProps.tla      - the scaling rules of every transform family (descriptive: one action per member of
                                   the forwarding loop, formulas transcribed from the _scale_strength methods) against
                                   the clauses of the statement, for every composition of <= MaxMembers members on a
                                   parameter grid and every factor sequence of length <= MaxScales over k/D.
                                   Variant "shipped" (the formulas of the original tree) and "compound" are negative
                                   controls that TLC must refute.
    specs/StrengthSched.tla      - the per-worker sample counter of KDScheduledTransform under a DataLoader model
                                   (round-robin dispatch, arbitrary interleaving of the workers), W x BS x E x BPE
                                   grid; wrong index formulas, a partial batch and a loader that does not dispatch
                                   round-robin are negative controls.
(T) specs/StrengthTrace.tla      - traces of the REAL transforms: for an instance and a factor sequence, after every
                                   scale_strength(f) the driver records
                                     lv  parameter leaves (generic attribute walk, only leaves that scaling acts on)
                                     dr  the ranges the transform hands to its generator in one call (edge generator)
                                     id  whether the transform is the identity on probe inputs
                                     fr/fdr the same for a FRESH twin scaled once by f, solo: stand-alone members
                                   and TLC evaluates the normative clauses on those observations.
    specs/StrengthSchedTrace.tla - per-sample records (global batch, worker, ctx strength, strength that reached the
                                   inner transform) from simulated workers and from real DataLoader workers.
"""
import importlib
import inspect
import itertools
import math
import os
import pkgutil
import random
import sys
import time
from functools import partial

import numpy as np

from kdverif import core, tlc, tracecheck

FP = 10 ** 6  # fixed point for logged floats
GRID_D = 4  # factors k / GRID_D are "grid factors" (the model's factor set)


def fp(x):
    return int(round(float(x) * FP))


# ---------------------------------------------------------------- probe inputs (fresh objects on every call)
def probe_tensor(k=0, chans=3):
    import torch
    r = np.random.default_rng(1000 + k)
    # values in [0, 1) on a 1/256 grid: a float image whose pixels never reach 1.0
    a = r.integers(0, 256, size=(chans, 6, 5))
    a[:, 0, 0], a[:, 0, 1], a[:, 1, 0] = 255, 0, 128
    return torch.from_numpy(a.astype(np.float32) / 256)


def probe_pil(k=0):
    from PIL import Image
    r = np.random.default_rng(2000 + k)
    a = r.integers(0, 256, size=(6, 5, 3), dtype=np.uint8)
    a[0, 0], a[0, 1], a[1, 0] = 255, 0, 128
    return Image.fromarray(a)


def same_image(a, b, tol):
    import torch
    from PIL import Image
    if isinstance(a, Image.Image) or isinstance(b, Image.Image):
        return isinstance(a, Image.Image) and isinstance(b, Image.Image) and a.mode == b.mode and a.size == b.size \
            and a.tobytes() == b.tobytes()
    if torch.is_tensor(a) and torch.is_tensor(b):
        return a.shape == b.shape and a.dtype == b.dtype and bool((a - b).abs().max() <= tol)
    return False


# ---------------------------------------------------------------- generic object walk
def _walkable(o):
    m = type(o).__module__ or ""
    return m.startswith("kappadata") or m.startswith("torchvision.transforms") or m in (__name__, "strength", "__main__")


def walk(root):
    """yield (path, object) for every object reachable through instance attributes / list / tuple / dict members of
    kappadata, torchvision.transforms and harness objects."""
    seen = set()
    stack = [("", root)]
    while stack:
        path, o = stack.pop()
        if id(o) in seen:
            continue
        if isinstance(o, (list, tuple)):
            seen.add(id(o))
            for i, x in enumerate(o):
                stack.append((f"{path}[{i}]", x))
            continue
        if isinstance(o, dict):
            seen.add(id(o))
            for k, x in o.items():
                if isinstance(k, (str, int)):
                    stack.append((f"{path}[{k!r}]", x))
            continue
        if isinstance(o, (bool, str, bytes, type(None))) or callable(o) and not hasattr(o, "__dict__"):
            continue
        if isinstance(o, (int, float, np.integer, np.floating)):
            yield path, o
            continue
        if _walkable(o) and hasattr(o, "__dict__"):
            seen.add(id(o))
            yield path, o
            for k, x in vars(o).items():
                if k.startswith("__"):
                    continue
                stack.append((f"{path}.{k}" if path else k, x))


def numeric_leaves(root):
    out = {}
    for path, o in walk(root):
        if isinstance(o, (int, float, np.integer, np.floating)) and not isinstance(o, bool):
            out[path] = float(o)
    return out


class EdgeRng:
    """Stands in for a numpy Generator. Records the ranges the owner asks it to sample from and answers with the
    edge of the range: uniform(lo, hi) -> lo + qu * (hi - lo); normal(loc, scale) -> loc + (2 qu - 1) * 2 * scale;
    scalar random() -> qa (qa = 0 makes every `random() < p` decision with p > 0 fire); everything else is
    delegated to a real, fixed-seed generator."""

    def __init__(self, log, record, qa, qu):
        self._log, self._record, self._qa, self._qu = log, record, qa, qu
        self._real = np.random.default_rng(12345)

    def uniform(self, low=0.0, high=1.0, size=None):
        if self._record:
            self._log.append(("u", float(low), float(high)))
        v = float(high) if self._qu == 1 else float(low) + self._qu * (float(high) - float(low))
        return v if size is None else np.full(size, v)

    def normal(self, loc=0.0, scale=1.0, size=None):
        if self._record:
            self._log.append(("n", float(loc) - float(scale), float(loc) + float(scale)))
        v = float(loc) + (2 * self._qu - 1) * 2 * float(scale)
        return v if size is None else np.full(size, v)

    def random(self, size=None, *a, **k):
        if size is None:
            return self._qa
        return np.full(size, 0.999 * self._qu)

    def __getattr__(self, name):
        return getattr(self._real, name)


def install_rng(root, make):
    """give every reachable object that holds a numpy Generator (attribute of any name) a generator made by
    make(owner); generic walk, no attribute names assumed."""
    n = 0
    for path, o in list(walk(root)):
        if hasattr(o, "__dict__") and not isinstance(o, (int, float)):
            for k, x in list(vars(o).items()):
                if isinstance(x, (np.random.Generator, EdgeRng)):
                    setattr(o, k, make(o))
                    n += 1
    return n


def owner_scales(o):
    f = getattr(type(o), "supports_scale_strength", None)
    try:
        return bool(f()) if f else False
    except Exception:
        return False


# ---------------------------------------------------------------- catalogue
class Probe:
    """harness transform (not repository code): a KDTransform whose strength is one number"""
    _cls = None

    @classmethod
    def cls(cls):
        if cls._cls is None:
            from kappadata.transforms.base.kd_transform import KDTransform

            class StrengthProbe(KDTransform):
                def __init__(self, strength=1.0):
                    super().__init__()
                    self.og_strength = self.strength = strength
                    self.applied = []

                def _scale_strength(self, factor):
                    self.strength = self.og_strength * factor

                def __call__(self, x, ctx=None):
                    self.applied.append(self.strength)
                    if ctx is not None:
                        ctx[f"{self.ctx_prefix}.applied"] = self.strength
                    return x

            cls._cls = StrengthProbe
        return cls._cls


PIPELINE_MODULES = dict(BYOLTransform="byol_transforms", BYOLTransform0="byol_transforms", BYOLTransform1="byol_transforms",
                        MUGSStrongTransform="mugs_transforms", MUGSStrongGlobalTransform="mugs_transforms",
                        MUGSStrongLocalTransform="mugs_transforms", MAEFinetuneTransform="mae_finetune_transform",
                        ImagenetMinaugTransform="imagenet_minaug_transforms",
                        ImagenetNoaugTransform="imagenet_noaug_transforms")


def _imp(modname, clsname):
    return getattr(importlib.import_module(modname), clsname)


def build(spec):
    """spec = (class name, kwargs) | ("compose", [specs]) | ("compose_shared", spec) | ("tv", name, kwargs)"""
    import kappadata.transforms as kdt
    kind = spec[0]
    if kind == "compose":
        return kdt.KDComposeTransform([build(s) for s in spec[1]])
    if kind == "compose_shared":
        m = build(spec[1])
        return kdt.KDComposeTransform([m, m])
    if kind == "tv":
        import torchvision.transforms as tvt
        return getattr(tvt, spec[1])(**spec[2])
    if kind == "probe":
        return Probe.cls()(**spec[1])
    if kind == "KDRandomRotation":
        return _imp("kappadata.transforms.kd_random_rotation", "KDRandomRotation")(**spec[1])
    if kind in PIPELINE_MODULES:
        return _imp("kappadata.common.transforms." + PIPELINE_MODULES[kind], kind)(**spec[1])
    if kind == "factory":
        from kappadata.factory import object_to_transform
        return object_to_transform(spec[1])
    return getattr(kdt, kind)(**spec[1])


def spec_name(spec):
    if spec[0] == "compose":
        return "Compose[" + ",".join(spec_name(s) for s in spec[1]) + "]"
    if spec[0] == "compose_shared":
        return "ComposeShared[" + spec_name(spec[1]) + "]"
    if spec[0] == "tv":
        return "tv." + spec[1]
    if spec[0] == "factory":
        return "factory[" + ",".join(d["kind"] for d in spec[1]) + "]"
    return spec[0] + "(" + ",".join(f"{k}={v}" for k, v in sorted(spec[1].items())) + ")"


def E(spec, probe, ident, collapse, weak, model=None, inner=None):
    """catalogue entry.
    probe:    "tensor" | "pil" | "gray" (1-channel tensor) - the input type the transform is documented for
    ident:    the transform is the identity at factor 0 (it has an identity)
    collapse: every range a scalable owner hands to its generator is a single point at factor 0
    weak:     the points such a collapsed range may sit at (weakest settings from the class documentation), floats
    model:    (kind, og values) binding to the descriptive model for single-family entries (conformance only)
    inner:    (attribute path prefix, spec of the stand-alone member) for wrappers around one scalable member"""
    return dict(spec=spec, probe=probe, ident=ident, collapse=collapse, weak=weak, model=model, inner=inner)


def leaf_catalogue():
    """every class that supports strength scaling x constructor variants (single instances, no compositions)"""
    c = []
    # colour jitter: brightness/contrast/saturation ranges centred at 1 (identity 1), hue centred at 0 (identity 0)
    for kw in (dict(brightness=0.4), dict(contrast=0.4, saturation=0.2), dict(brightness=0.4, contrast=0.4, saturation=0.2, hue=0.1),
               dict(hue=0.25), dict(brightness=(0.5, 1.75)), dict(saturation=(1.0, 1.5), hue=(-0.125, 0.25)),
               dict(brightness=1.0, hue=0.5), dict(contrast=(0.25, 1.0))):
        c.append(E(("KDColorJitter", kw), "tensor", True, True, [1.0, 0.0]))
        c.append(E(("KDRandomColorJitter", dict(kw, p=1.0)), "tensor", True, True, [1.0, 0.0],
                   inner=("color_jitter", ("KDColorJitter", kw))))
    c.append(E(("KDRandomColorJitter", dict(brightness=0.4, contrast=0.4, saturation=0.2, hue=0.1, p=0.8)), "tensor", True,
               True, [1.0, 0.0]))
    # gaussian blur: sigma in [lb, ub]; the weakest setting is the lower bound (no identity)
    for sg in ((0.1, 2.0), (0.5, 0.75), 1.5, (0.25, 0.25)):
        lb = float(sg[0] if isinstance(sg, tuple) else sg)
        c.append(E(("KDGaussianBlurPIL", dict(sigma=sg)), "pil", False, True, [lb]))
        c.append(E(("KDGaussianBlurTV", dict(kernel_size=3, sigma=sg)), "tensor", False, True, [lb]))
        c.append(E(("KDRandomGaussianBlurPIL", dict(sigma=sg, p=1.0)), "pil", False, True, [lb],
                   inner=("gaussian_blur", ("KDGaussianBlurPIL", dict(sigma=sg)))))
        c.append(E(("KDRandomGaussianBlurTV", dict(kernel_size=3, sigma=sg, p=0.5)), "tensor", False, True, [lb],
                   inner=("gaussian_blur", ("KDGaussianBlurTV", dict(kernel_size=3, sigma=sg)))))
    # solarize: threshold 256 (PIL, int) / 1.0 (float tensor) = no pixel is inverted
    for th in (0, 128, 77, 255, 256):
        c.append(E(("KDSolarize", dict(threshold=th)), "pil", True, True, [256.0]))
        c.append(E(("KDRandomSolarize", dict(threshold=th, p=1.0)), "pil", True, True, [256.0],
                   inner=("solarize", ("KDSolarize", dict(threshold=th)))))
    for th in (0.0, 0.5, 0.3, 1.0):
        c.append(E(("KDSolarize", dict(threshold=th)), "tensor", True, True, [1.0]))
        c.append(E(("KDRandomSolarize", dict(threshold=th, p=0.2)), "tensor", True, True, [1.0],
                   inner=("solarize", ("KDSolarize", dict(threshold=th)))))
    # random grayscale: probability p -> 0
    for p in (0.2, 1.0, 0.0, 0.75):
        c.append(E(("KDRandomGrayscale", dict(p=p)), "tensor", True, True, [0.0]))
    # rotation: degrees range -> 0
    for dg in (15, 90.0, (-30, 30), (10, 50), (30, 30), (-45, 0), 0):
        c.append(E(("KDRandomRotation", dict(degrees=dg)), "tensor", True, True, [0.0]))
    c.append(E(("KDRandomRotation", dict(degrees=20, interpolation="bilinear")), "pil", True, True, [0.0]))
    # magnitude samplers: noise, threshold, rand-augment
    mags = (dict(), dict(magnitude=0.5), dict(magnitude=0.5, magnitude_std=0.25, magnitude_min=0.125, magnitude_max=0.75),
            dict(magnitude=1.0, magnitude_std=0.0), dict(magnitude=0.75, magnitude_min=0.25))
    for kw in mags:
        c.append(E(("KDAdditiveGaussianNoise", dict(kw, std=0.5)), "tensor", True, True, [0.0]))
        c.append(E(("KDAdditiveUniformNoise", dict(kw)), "tensor", True, True, [0.0]))
        c.append(E(("KDRandomAdditiveGaussianNoise", dict(kw, std=0.25, p=1.0)), "tensor", True, True, [0.0],
                   inner=("noise", ("KDAdditiveGaussianNoise", dict(kw, std=0.25)))))
    c.append(E(("KDAdditiveGaussianNoise", dict(std=1.0, clip_min=0.0, clip_max=1.0)), "tensor", True, True, [0.0]))
    for kw in (dict(threshold=0.5), dict(threshold=0.5, threshold_std=0.25, threshold_min=0.25, threshold_max=0.75),
               dict(threshold=0.75, threshold_std=float("inf"), threshold_min=0.5)):
        c.append(E(("KDThreshold", kw), "gray", True, True, [0.0]))
        c.append(E(("KDRandomThreshold", dict(kw, p=1.0)), "gray", True, True, [0.0],
                   inner=("threshold", ("KDThreshold", kw))))
    for nm in ("KDRandAugment", "KDRandAugmentCustom"):
        for kw in (dict(num_ops=2, magnitude=9, magnitude_std=0.5), dict(num_ops=3, magnitude=5),
                   dict(num_ops=2, magnitude=10, magnitude_std=float("inf"), magnitude_min=2.5),
                   dict(num_ops=1, magnitude=7.5, magnitude_std=1.0, magnitude_min=1.0, magnitude_max=9.0)):
            c.append(E((nm, dict(kw, fill_color=(124, 116, 104), interpolation="bilinear")), "pil", False, True, [0.0]))
    return c


# ---------------------------------------------------------------- observation of one instance
MISSING = 1_100_000_000  # a leaf that disappeared / is not finite / is out of the fixed-point range


def make_probe(kind, k=0):
    if kind == "pil":
        return probe_pil(k)
    if kind == "gray":
        return probe_tensor(k, chans=1)
    return probe_tensor(k)


def call_with(t, entry, make, k=0):
    install_rng(t, make)
    x = make_probe(entry["probe"], k)
    return t(x, {})


def draws_of(t, entry):
    """ranges handed to the generator by owners that support scaling, in one call under the edge generator"""
    log = []
    call_with(t, entry, lambda o: EdgeRng(log, owner_scales(o), 0.0, 0.0))
    out = []
    for _, lo, hi in log:
        if math.isfinite(lo) and math.isfinite(hi) and abs(lo) <= 1000 and abs(hi) <= 1000:
            out += [fp(lo), fp(hi)]
        else:
            out += [MISSING, MISSING]
    return out


def identity_of(t, entry):
    """is the transform the identity on probe inputs (edge generators that make every decision fire, both ends of
    every range, and two ordinary seeded generators); tolerance 1e-5 on float tensors (torchvision's hue round trip)"""
    runs = [lambda o: EdgeRng([], False, 0.0, 0.0), lambda o: EdgeRng([], False, 0.0, 1.0)]
    for s in (1, 2):
        g = np.random.default_rng(s)
        runs.append(lambda o, g=g: g)
    for k, mk in enumerate(runs):
        y = call_with(t, entry, mk, k)
        if not same_image(y, make_probe(entry["probe"], k), 1e-5):
            return 0
    return 1


def leaves_at(t, paths):
    d = numeric_leaves(t)
    out = []
    for p in paths:
        v = d.get(p)
        out.append(fp(v) if v is not None and math.isfinite(v) and abs(v) <= 1000 else MISSING)
    return out


class Refusal(Exception):
    pass


class Unconstructible(Exception):
    pass


class Unusable(Exception):
    """the instance as constructed (never scaled) cannot be applied to the probe input: not a subject for C15"""


def _alarm(signum, frame):
    raise TimeoutError("Diverge: call did not return within the deadline")


def deadline(seconds):
    """non-termination is an observation: calls into the repository run under SIGALRM (main thread of the process)"""
    import signal
    try:
        signal.signal(signal.SIGALRM, _alarm)
        signal.alarm(seconds)
    except ValueError:
        pass  # not in the main thread: no deadline available


def guarded(fn, *a):
    try:
        return fn(*a)
    except BaseException as e:  # noqa
        if isinstance(e, (KeyboardInterrupt, SystemExit)):
            raise
        raise Refusal(f"{type(e).__name__}: {str(e)[:120]}") from e


def scaling_paths(spec):
    """the leaves scaling acts on: numeric attributes that differ between the call-free snapshots
    cons, Scale(0), Scale(1/2), Scale(1) of a fresh instance; leaves that are not finite in one of them are skipped"""
    t = build(spec)
    snaps = [numeric_leaves(t)]
    for f in (0.0, 0.5, 1.0):
        t.scale_strength(f)
        snaps.append(numeric_leaves(t))
    keys = set().union(*[set(s) for s in snaps])
    paths, skipped = [], 0
    for k in sorted(keys):
        vals = [s.get(k) for s in snaps]
        if any(v is None or not math.isfinite(v) for v in vals):
            if len({repr(v) for v in vals}) > 1:
                skipped += 1
            continue
        if len(set(vals)) > 1:
            paths.append(k)
    return paths, skipped


class Subject:
    """everything the driver knows about one catalogue entry (cached reference observations of fresh twins)"""

    def __init__(self, entry):
        self.e = entry
        self.name = spec_name(entry["spec"])
        self.refusal = None
        try:
            build(entry["spec"])
        except Exception as ex:  # noqa
            raise Unconstructible(f"{type(ex).__name__}: {str(ex)[:160]}") from ex
        self.members = []  # (prefix, spec, member paths)
        self.paths = []
        try:
            self.cons = self._observe(build(entry["spec"]), with_id=False)
        except Refusal as r:
            raise Unusable(str(r)) from r
        try:
            self.paths, self.nonfinite = guarded(scaling_paths, entry["spec"])
            spec = entry["spec"]
            if spec[0] == "compose":
                for i, m in enumerate(spec[1]):
                    if m[0] in ("tv",):
                        continue
                    mp, _ = guarded(scaling_paths, m)
                    self.members.append((f"transforms[{i}]", m, mp))
            elif entry.get("inner"):
                pre, m = entry["inner"]
                mp, _ = guarded(scaling_paths, m)
                self.members.append((pre, m, mp))
            extra = [f"{pre}.{p}" for pre, _, mp in self.members for p in mp]
            self.paths = sorted(set(self.paths) | set(extra))
            self.sidx, self.smap = [], []
            for pre, m, mp in self.members:
                for p in mp:
                    self.sidx.append(self.paths.index(f"{pre}.{p}") + 1)
                    self.smap.append((pre, p))
        except Refusal as r:
            self.paths, self.nonfinite, self.sidx, self.smap = [], 0, [], []
            self.refusal = str(r)
        self._fresh = {}
        self._solo = {}
        self.cons = self._observe(build(entry["spec"]), with_id=False)  # again, now with the leaf paths known

    def _observe(self, t, with_id=True):
        lv = leaves_at(t, self.paths)
        dr = guarded(draws_of, t, self.e)
        idn = guarded(identity_of, t, self.e) if with_id else 0
        return dict(lv=lv, dr=dr, id=idn)

    def fresh(self, f):
        """observation of a newly constructed twin scaled exactly once, by f"""
        if f not in self._fresh:
            t = build(self.e["spec"])
            guarded(t.scale_strength, f)
            self._fresh[f] = self._observe(t, with_id=False)
        return self._fresh[f]

    def solo(self, f):
        """leaves of the stand-alone members, each scaled once by f (aligned with self.sidx)"""
        if f not in self._solo:
            vals = {}
            for pre, m, mp in self.members:
                t = build(m)
                guarded(t.scale_strength, f)
                d = leaves_at(t, mp)
                for p, v in zip(mp, d):
                    vals[(pre, p)] = v
            self._solo[f] = [vals[k] for k in self.smap]
        return self._solo[f]

    def cfg(self):
        zero = self.fresh(0.0)
        return dict(name=self.name, ident=int(self.e["ident"]), collapse=int(self.e["collapse"]),
                    weak=[fp(w) for w in self.e["weak"]], cons=dict(lv=self.cons["lv"], dr=self.cons["dr"]),
                    zero=dict(lv=zero["lv"], dr=zero["dr"]), sidx=self.sidx)

    def trace(self, factors):
        """factors: list of ints n (factor n / 10^6). Returns the event list recorded from a new instance."""
        ev = []
        t = None
        for n in factors:
            if n < 0:
                # perturbation between two observed scalings: a member is scaled directly (factor -(n+1)/10^6); the
                # next scaling of the whole transform must still depend on its own factor only
                if t is not None:
                    m = t.transforms[0] if hasattr(t, "transforms") and len(t.transforms) else getattr(t, "transform", None)
                    if m is not None and hasattr(m, "scale_strength"):
                        try:
                            guarded(m.scale_strength, (-n - 1) / FP)
                        except Refusal:
                            pass
                continue
            f = n / FP
            try:
                if t is None:
                    t = guarded(build, self.e["spec"])
                guarded(t.scale_strength, f)
                o = self._observe(t)
                fr = self.fresh(f)
                ev.append(dict(a="scale", f=n, lv=o["lv"], dr=o["dr"], id=o["id"], fr=fr["lv"], fdr=fr["dr"],
                               solo=self.solo(f), why=""))
            except Refusal as r:
                ev.append(dict(a="raise", f=n, lv=[], dr=[], id=0, fr=[], fdr=[], solo=[], why=str(r)))
                break
        return ev


# ---------------------------------------------------------------- binding to the descriptive model (conformance)
def model_of(spec, prefix=""):
    """[(kind, og values (floats), attribute paths or None)] for the parameter families of Strength.tla"""
    import torchvision.transforms as tvt
    name = spec[0]
    pre = prefix + "." if prefix else ""
    if name == "compose":
        out = []
        for i, m in enumerate(spec[1]):
            out += model_of(m, f"{pre}transforms[{i}]")
        return out
    if name in ("tv", "probe", "compose_shared", "factory") or name in PIPELINE_MODULES:
        return []
    kw = spec[1]
    inner = dict(KDRandomColorJitter=("color_jitter", "KDColorJitter"), KDRandomGaussianBlurPIL=("gaussian_blur", "KDGaussianBlurPIL"),
                 KDRandomGaussianBlurTV=("gaussian_blur", "KDGaussianBlurTV"), KDRandomSolarize=("solarize", "KDSolarize"),
                 KDRandomAdditiveGaussianNoise=("noise", "KDAdditiveGaussianNoise"), KDRandomThreshold=("threshold", "KDThreshold"))
    if name in inner:
        attr, cls = inner[name]
        return model_of((cls, {k: v for k, v in kw.items() if k != "p"}), pre + attr)
    if name == "KDColorJitter":
        cj = tvt.ColorJitter(**kw)
        out = []
        for fam in ("brightness", "contrast", "saturation"):
            r = getattr(cj, fam)
            if r is not None:
                out.append(("center1", [r[0], r[1]], [f"{pre}{fam}_lb", f"{pre}{fam}_ub"]))
        if cj.hue is not None:
            out.append(("hue", [cj.hue[0], cj.hue[1]], [f"{pre}hue_lb", f"{pre}hue_ub"]))
        return out
    if name in ("KDGaussianBlurPIL", "KDGaussianBlurTV"):
        sg = tvt.GaussianBlur(kernel_size=1, sigma=kw["sigma"]).sigma
        return [("sigma", [sg[0], sg[1]], [None, f"{pre}sigma_ub"])]
    if name == "KDSolarize":
        th = kw["threshold"]
        return [("solarint" if isinstance(th, int) else "solarfloat", [th], [f"{pre}threshold"])]
    if name == "KDRandomGrayscale":
        return [("prob", [kw["p"]], [f"{pre}p"])]
    if name == "KDRandomRotation":
        dg = tvt.RandomRotation(degrees=kw["degrees"]).degrees
        return [("rot", [dg[0], dg[1]], [f"{pre}degree_lb", f"{pre}degree_ub"])]
    mp = f"{pre}magnitude_sampler."
    if name in ("KDAdditiveGaussianNoise", "KDAdditiveUniformNoise"):
        m = [kw.get("magnitude", 1.0), kw.get("magnitude_std", float("inf")), kw.get("magnitude_min", 0.0), kw.get("magnitude_max", 1.0)]
    elif name == "KDThreshold":
        m = [kw["threshold"], kw.get("threshold_std", 0.0), kw.get("threshold_min", 0.0), kw.get("threshold_max", 1.0)]
    elif name in ("KDRandAugment", "KDRandAugmentCustom"):
        m = [kw["magnitude"] / 10, kw.get("magnitude_std", 0.0) / 10, kw.get("magnitude_min", 0.0) / 10, kw.get("magnitude_max", 10.0) / 10]
    else:
        return []
    paths = [mp + "magnitude", mp + "magnitude_std", mp + "magnitude_min", mp + "magnitude_max"]
    if not math.isfinite(m[1]):
        m[1], paths[1] = 0.0, None
    return [("mag", m, paths)]


def bind_model(subject):
    out = []
    for kind, og, paths in model_of(subject.e["spec"]):
        idx = [(subject.paths.index(p) + 1 if p is not None and p in subject.paths else 0) for p in paths]
        out.append(dict(kind=kind, og=[fp(x) for x in og], idx=idx))
    return out


# ---------------------------------------------------------------- compositions
def compositions(r, leaves, n):
    """random compositions of catalogue members of one input type: plain, with a torchvision member in between,
    nested, sharing one member object, built by the factory from a list"""
    by_probe = {}
    for e in leaves:
        by_probe.setdefault(e["probe"], []).append(e)
    out = []
    shapes = ["plain", "plain", "tv", "nested", "shared", "plain3"]
    for i in range(n):
        probe = r.choice(["tensor", "tensor", "pil", "gray"])
        pool = by_probe[probe]
        shape = shapes[i % len(shapes)]
        k = 3 if shape in ("plain3", "nested") else 2
        ms = [r.choice(pool) for _ in range(k)]
        specs = [m["spec"] for m in ms]
        if shape == "tv":
            spec = ("compose", [specs[0], ("tv", "Pad", dict(padding=0)), specs[1]])
        elif shape == "nested":
            spec = ("compose", [("compose", [specs[0], specs[1]]), specs[2]])
        elif shape == "shared":
            ms = ms[:1]
            spec = ("compose_shared", specs[0])
        else:
            spec = ("compose", specs)
        out.append(E(spec, probe, all(m["ident"] for m in ms), all(m["collapse"] for m in ms),
                     sorted({w for m in ms for w in m["weak"]})))
    # the factory route (list of dicts -> KDComposeTransform)
    out.append(E(("factory", [dict(kind="kd_random_grayscale", p=0.5), dict(kind="KDSolarize", threshold=0.25),
                              dict(kind="kd_additive_gaussian_noise", std=0.5)]), "tensor", True, True, [0.0, 1.0]))
    out.append(E(("factory", [dict(kind="KDGaussianBlurPIL", sigma=(0.1, 2.0)), dict(kind="KDRandomSolarize", threshold=100, p=1.0)]),
                 "pil", False, True, [0.1, 256.0]))
    return out


def pipeline_entries():
    norm = ((0.5, 0.5, 0.5), (0.25, 0.25, 0.25))
    weak = [1.0, 0.0, 0.1, 256.0]
    return [
        E(("BYOLTransform", dict(size=8, norm=norm)), "pil", False, True, weak),
        E(("BYOLTransform", dict(size=8, norm=None, color_jitter_p=1.0, gaussian_blur_p=1.0, grayscale_p=1.0, solarize_p=1.0,
                                 flip_p=0.0)), "pil", False, True, weak),
        E(("BYOLTransform0", dict(size=8)), "pil", False, True, weak),
        E(("BYOLTransform1", dict(size=8)), "pil", False, True, weak),
        E(("MUGSStrongTransform", dict(size=8)), "pil", False, True, [0.0]),
        E(("MAEFinetuneTransform", dict()), "pil", False, True, [0.0]),
        E(("MUGSStrongGlobalTransform", dict(size=8)), "pil", False, True, [0.0]),
        E(("MUGSStrongLocalTransform", dict(size=8)), "pil", False, True, [0.0]),
        E(("ImagenetMinaugTransform", dict(size=8)), "pil", False, True, []),
        E(("ImagenetNoaugTransform", dict(resize_size=8, center_crop_size=6)), "pil", False, True, []),
    ]


# ---------------------------------------------------------------- which classes support scaling (catalogue holes)
def supporting_classes():
    import kappadata
    from kappadata.transforms.base.kd_transform import KDTransform
    found, broken = set(), []
    for m in pkgutil.walk_packages(kappadata.__path__, "kappadata."):
        try:
            mod = importlib.import_module(m.name)
        except Exception as e:  # noqa
            broken.append(f"{m.name}: {type(e).__name__}")
            continue
        for n, c in inspect.getmembers(mod, inspect.isclass):
            if issubclass(c, KDTransform) and c.__module__ == m.name and c.supports_scale_strength():
                found.add(n)
    return found, broken


def classes_in(spec):
    if spec[0] in ("compose",):
        return {"KDComposeTransform"}.union(*[classes_in(s) for s in spec[1]])
    if spec[0] == "compose_shared":
        return {"KDComposeTransform"} | classes_in(spec[1])
    if spec[0] in ("tv", "probe"):
        return set()
    if spec[0] == "factory":
        return {"KDComposeTransform"}
    return {spec[0]}


# ---------------------------------------------------------------- trace generation / validation (scaling)
GRID = [0, 250000, 500000, 750000, 1000000]


def grid_sequences(maxlen):
    for n in range(1, maxlen + 1):
        yield from itertools.product(GRID, repeat=n)


def random_sequence(r, n):
    out = []
    for _ in range(n):
        c = r.random()
        if c < 0.15:
            out.append(0)
        elif c < 0.3:
            out.append(FP)
        elif c < 0.45:
            out.append(r.choice(GRID))
        elif c < 0.55 and out:
            out.append(r.choice(out))  # a repeated factor
        else:
            out.append(r.randrange(0, FP + 1))
    return out


def _record_chunk(args):
    """worker: record all traces of a list of (entry index, entry, [factor sequences])"""
    import torch
    torch.set_num_threads(1)
    res = []
    for ei, entry, seqs in args:
        deadline(60 + len(seqs))
        try:
            s = Subject(entry)
            cfg = s.cfg()
            cfg["model"] = bind_model(s)
            meta = dict(paths=s.paths, nonfinite=s.nonfinite, name=s.name, refusal=s.refusal)
        except Unconstructible as uc:
            res.append((ei, None, dict(name=spec_name(entry["spec"]), unconstructible=str(uc), paths=[], nonfinite=0), []))
            continue
        except Unusable as uu:
            res.append((ei, None, dict(name=spec_name(entry["spec"]), unusable=str(uu), paths=[], nonfinite=0), []))
            continue
        except Refusal as rf:
            # the constructed instance cannot even be observed (a call or Scale(0) on a fresh twin raises)
            res.append((ei, None, dict(name=spec_name(entry["spec"]), refusal=str(rf), paths=[], nonfinite=0), []))
            continue
        res.append((ei, cfg, meta, [(list(q), s.trace(list(q))) for q in seqs]))
    import signal
    signal.alarm(0)
    return res


def record_scaling(jobs, procs):
    """jobs: [(entry index, entry, [sequences])] -> list of (ei, cfg, meta, [(seq, ev)])"""
    import multiprocessing as mp
    if procs <= 1:
        return _record_chunk(jobs)
    # one job per (entry, slice of its sequences) so that the chunks are balanced
    units = []
    for ei, entry, seqs in jobs:
        step = 250
        for a in range(0, max(len(seqs), 1), step):
            units.append((ei, entry, seqs[a:a + step]))
    chunks = [units[i::procs] for i in range(procs)]
    with mp.get_context("fork").Pool(procs) as pool:
        parts = pool.map(_record_chunk, [c for c in chunks if c])
    return [x for p in parts for x in p]


def validate_traces(module, cfg, traces, name, jobs, tags=()):
    """like tracecheck.validate, additionally returns the id sets printed under the extra tags"""
    import json
    from concurrent.futures import ThreadPoolExecutor
    os.makedirs(tlc.WORK, exist_ok=True)
    if not traces:
        return set(), {}, dict(states=0, transitions=0), {t: set() for t in tags}
    order = sorted(traces, key=lambda t: -len(t["ev"]))
    chunks = [c for c in (order[i::jobs] for i in range(jobs)) if c]

    def one(i_ch):
        i, ch = i_ch
        path = os.path.join(tlc.WORK, f"{name}-{os.getpid()}-{i}.json")
        with open(path, "w") as f:
            json.dump(dict(traces=ch), f)
        try:
            r = tlc.run_tlc(module, cfg, name=f"{name}{i}", workers=1, env=dict(TRACE_FILE=path), timeout=3000, heap="2g")
        finally:
            os.remove(path)
        acc = tlc.tagged(r.prints, "ACCEPTED")
        rej = tlc.tagged(r.prints, "REJECTED")
        if len(acc) != 1 or len(rej) != 1:
            raise tlc.TLCError(f"{module}: verdict lines missing\n{r.stdout[-3000:]}")
        extra = {}
        for t in tags:
            x = tlc.tagged(r.prints, t)
            if len(x) != 1:
                raise tlc.TLCError(f"{module}: line {t} missing\n{r.stdout[-2000:]}")
            extra[t] = set(x[0])
        return set(acc[0]), {x[0]: (x[1], sorted(x[2])) for x in rej[0]}, r, extra

    acc, rej, st, tr, extra = set(), {}, 0, 0, {t: set() for t in tags}
    with ThreadPoolExecutor(max_workers=jobs) as ex:
        for a, rj, r, xt in ex.map(one, list(enumerate(chunks))):
            acc |= a
            rej.update(rj)
            st += r.distinct_states
            tr += r.states_generated
            for t in tags:
                extra[t] |= xt[t]
    ids = {t["id"] for t in traces}
    acc -= set(rej)
    if acc | set(rej) != ids:
        raise tlc.TLCError(f"{module}: verdicts not total: {len(ids)} traces, {len(acc)} accepted, {len(rej)} rejected, "
                           f"e.g. missing {sorted(ids - acc - set(rej))[:5]}")
    return acc, rej, dict(states=st, transitions=tr), extra


# ================================================================ scheduled transform
NOCTX = -FP  # ctx key missing


def make_schedule(desc, nb, r=None):
    """desc -> the object handed to KDScheduledTransform(schedule=...). A second call gives an independent, equal
    object: its get_value(b, nb) is the definition of 'the schedule's value at b'."""
    import kappaschedules as ks
    kind = desc[0]
    if kind == "default":
        return None
    if kind == "linear":
        return ks.LinearIncreasingSchedule()
    if kind == "linear_excl":
        return ks.LinearIncreasingSchedule(exclude_first=True, exclude_last=True)
    if kind == "cosine":
        return dict(kind="cosine_increasing_schedule")
    if kind == "decreasing":
        return ks.LinearDecreasingSchedule()
    if kind == "part":
        return ks.LinearIncreasingSchedule(start_value=0.25, max_value=0.75)
    if kind == "custom":
        return [float(v) for v in desc[1]]  # list of numbers -> CustomSchedule
    raise ValueError(kind)


def schedule_values(desc, nb):
    import kappaschedules as ks
    s = ks.object_to_schedule(make_schedule(desc, nb)) or ks.LinearIncreasingSchedule()
    return [float(s.get_value(b, nb)) for b in range(nb)]


def probe_spec():
    return ("probe", dict(strength=1.0))


INNERS = [
    # (name, wrapped transform spec, real members whose leaves are compared with fresh twins: [(prefix, spec)])
    ("probe", ("compose", [probe_spec()]), []),
    ("probe+solarize", ("compose", [probe_spec(), ("KDSolarize", dict(threshold=0.25))]),
     [("transforms[1]", ("KDSolarize", dict(threshold=0.25)))]),
    ("gray+probe+noise", ("compose", [("KDRandomGrayscale", dict(p=0.5)), probe_spec(), ("KDAdditiveGaussianNoise", dict(std=0.5, magnitude=0.5))]),
     [("transforms[0]", ("KDRandomGrayscale", dict(p=0.5))),
      ("transforms[2]", ("KDAdditiveGaussianNoise", dict(std=0.5, magnitude=0.5)))]),
    ("nested", ("compose", [("compose", [("KDGaussianBlurTV", dict(kernel_size=3, sigma=(0.1, 2.0))), probe_spec()]),
                            ("KDRandomSolarize", dict(threshold=0.5, p=1.0))]),
     [("transforms[0].transforms[0]", ("KDGaussianBlurTV", dict(kernel_size=3, sigma=(0.1, 2.0)))),
      ("transforms[1]", ("KDRandomSolarize", dict(threshold=0.5, p=1.0)))]),
]


def find_probe(t):
    pc = Probe.cls()
    for _, o in walk(t):
        if isinstance(o, pc):
            return o
    return None


class InnerRef:
    """fresh twins of the real members of a wrapped composition, scaled by a given factor (cached by factor)"""

    def __init__(self, members):
        self.members = []
        for pre, spec in members:
            paths, _ = scaling_paths(spec)
            self.members.append((pre, spec, paths))
        self.cache = {}

    def paths(self):
        return [f"{pre}.{p}" for pre, _, ps in self.members for p in ps]

    def want(self, f):
        k = repr(f)
        if k not in self.cache:
            out = []
            for pre, spec, ps in self.members:
                t = build(spec)
                t.scale_strength(f)
                out += leaves_at(t, ps)
            self.cache[k] = out
        return self.cache[k]


def how_kwargs(how, bs, nb, r):
    """worker_init_fn keyword arguments that describe a run of nb full batches of bs samples, and the loader facts"""
    if how == "updates":
        return dict(updates=nb)
    if how == "samples":
        return dict(samples=nb * bs)
    if how == "epochs_drop":
        # nb = epochs * (len // bs): pick epochs | nb, dataset with a remainder that drop_last cuts
        e = r.choice([d for d in range(1, nb + 1) if nb % d == 0])
        bpe = nb // e
        ws = r.choice([1, 2])
        return dict(epochs=e, dataset_len=(bpe * bs + r.randrange(0, bs)) * ws + r.randrange(0, ws), world_size=ws, drop_last=True)
    if how == "epochs_keep":
        e = r.choice([d for d in range(1, nb + 1) if nb % d == 0])
        bpe = nb // e
        return dict(epochs=e, dataset_len=bpe * bs, world_size=1, drop_last=False)
    raise ValueError(how)


class WorkerInfoMock:
    def __init__(self, num_workers, id):
        self.num_workers, self.id, self.seed = num_workers, id, 1234


def sim_trace(c, r):
    """W copies of one KDScheduledTransform (as forked DataLoader workers would hold), initialised through the public
    worker_init_fn with get_worker_info mocked, then driven by a simulated loader: batch b goes to worker b mod W,
    the workers advance sample by sample in a random interleaving."""
    import copy
    from unittest.mock import patch
    from kappadata.transforms.base.kd_scheduled_transform import KDScheduledTransform
    W, BS, NB = c["W"], c["BS"], c["NB"]
    iname, ispec, imembers = INNERS[c["inner"]]
    ref = InnerRef(imembers)
    ipaths = ref.paths()
    ev = []
    try:
        base = KDScheduledTransform(transform=build(ispec), schedule=make_schedule(c["sched"], NB))
        if c.get("outer"):
            import kappadata.transforms as kdt
            base = kdt.KDComposeTransform([base])
        # uses before the schedule is installed (a look at a sample in the main process, before the workers fork):
        # not part of the scheduled run, so not recorded - but they must not shift the run that follows
        for q in range(c.get("pre", 0)):
            base(probe_tensor(q), {} if q % 2 == 0 else None)
        workers = [copy.deepcopy(base) for _ in range(W)]
        kw = c["kw"]
        for rk, t in enumerate(workers):
            if W == 1 and c.get("manual"):
                t.worker_init_fn(rank=0, batch_size=BS, **kw)  # main process, no worker info
            else:
                with patch("kappadata.transforms.base.kd_transform.get_worker_info", new=lambda: WorkerInfoMock(W, rk)):
                    t.worker_init_fn(rank=rk, batch_size=BS, **kw)
    except BaseException as e:  # noqa
        return [dict(a="raise", b=0, r=0, j=0, ctx=NOCTX, app=NOCTX, ilv=[], wlv=[], why=f"init {type(e).__name__}: {str(e)[:100]}")]
    sched = c["schedv"]
    queues = [[b for b in range(NB) if b % W == rk] for rk in range(W)]
    pos = [(0, 0)] * W  # (index into queue, sample in batch)
    while True:
        alive = [rk for rk in range(W) if pos[rk][0] < len(queues[rk])]
        if not alive:
            break
        rk = r.choice(alive)
        qi, j = pos[rk]
        b = queues[rk][qi]
        t = workers[rk]
        ctx = {}
        try:
            t(probe_tensor(b * BS + j), ctx)
        except BaseException as e:  # noqa
            ev.append(dict(a="raise", b=b, r=rk, j=j, ctx=NOCTX, app=NOCTX, ilv=[], wlv=[], why=f"{type(e).__name__}: {str(e)[:100]}"))
            return ev
        app = ctx.get("StrengthProbe.applied")
        key = [k for k in ctx if k.endswith(".strength")]
        cv = ctx[key[0]] if len(key) == 1 else None
        ev.append(dict(a="s", b=b, r=rk, j=j, ctx=fp(cv) if cv is not None else NOCTX,
                       app=fp(app) if app is not None else NOCTX, ilv=leaves_at(t, [ipath_fix(c, p) for p in ipaths]),
                       wlv=ref.want(sched[b]), why=""))
        pos[rk] = (qi, j + 1) if j + 1 < BS else (qi + 1, 0)
    return ev


def ipath_fix(c, p):
    pre = "transforms[0].transform." if c.get("outer") else "transform."
    return pre + p


def _loader_child(c, conn):
    import torch
    from torch.utils.data import DataLoader, Dataset, get_worker_info
    torch.set_num_threads(1)
    try:
        from kappadata.transforms.base.kd_scheduled_transform import KDScheduledTransform
        W, BS, NB = c["W"], c["BS"], c["NB"]
        iname, ispec, imembers = INNERS[c["inner"]]
        tr = KDScheduledTransform(transform=build(ispec), schedule=make_schedule(c["sched"], NB))
        ipaths = [ipath_fix(c, p) for p in InnerRef(imembers).paths()]
        n = NB * BS
        rnd = random.Random(c["seed"])
        order = list(range(n))
        rnd.shuffle(order)
        batches = [order[i * BS:(i + 1) * BS] for i in range(NB)]
        if c["route"] == "direct":
            class DS(Dataset):
                def __len__(self):
                    return n

                def __getitem__(self, idx):
                    ctx = {}
                    tr(probe_tensor(idx), ctx)
                    info = get_worker_info()
                    key = [k for k in ctx if k.endswith(".strength")]
                    return dict(idx=idx, r=info.id if info else 0,
                                ctx=fp(ctx[key[0]]) if len(key) == 1 else NOCTX,
                                app=fp(ctx["StrengthProbe.applied"]) if "StrengthProbe.applied" in ctx else NOCTX,
                                ilv=torch.tensor(leaves_at(tr, ipaths), dtype=torch.int64))

            ds = DS()
            for q in range(c.get("pre", 0)):
                ds[q % n]  # the main process looks at samples before the loader (and its schedule) exists
            init = partial(tr.worker_init_fn, batch_size=BS, **c["kw"])
            loader = DataLoader(ds, batch_sampler=batches, num_workers=W, worker_init_fn=init, timeout=60)
            out = []
            for b, batch in enumerate(loader):
                for j in range(len(batch["idx"])):
                    out.append(dict(a="s", b=b, r=int(batch["r"][j]), j=j, ctx=int(batch["ctx"][j]), app=int(batch["app"][j]),
                                    ilv=[int(v) for v in batch["ilv"][j]], idx=int(batch["idx"][j])))
        else:
            # the package's own route: ModeWrapper(XTransformWrapper(dataset, transform)).worker_init_fn, ctx returned
            from kappadata.datasets.kd_dataset import KDDataset
            from kappadata.wrappers.mode_wrapper import ModeWrapper
            from kappadata.wrappers.sample_wrappers.x_transform_wrapper import XTransformWrapper

            class XDS(KDDataset):
                def getitem_x(self, idx, ctx=None):
                    if ctx is not None:
                        info = get_worker_info()
                        ctx["harness.worker"] = info.id if info else 0
                        ctx["harness.idx"] = int(idx)
                    return probe_tensor(idx)

                def __len__(self):
                    return n

            ds = ModeWrapper(XTransformWrapper(dataset=XDS(), transform=tr), mode="x", return_ctx=True)
            init = partial(ds.worker_init_fn, batch_size=BS, **c["kw"])
            loader = DataLoader(ds, batch_sampler=batches, num_workers=W, worker_init_fn=init, timeout=60)
            out = []
            for b, (x, ctx) in enumerate(loader):
                key = [k for k in ctx if k.endswith(".strength")]
                for j in range(len(ctx["harness.idx"])):
                    out.append(dict(a="s", b=b, r=int(ctx["harness.worker"][j]), j=j,
                                    ctx=fp(float(ctx[key[0]][j])) if len(key) == 1 else NOCTX,
                                    app=fp(float(ctx["StrengthProbe.applied"][j])) if "StrengthProbe.applied" in ctx else NOCTX,
                                    ilv=None, idx=int(ctx["harness.idx"][j])))
        # the loader must have delivered exactly the planned batches (harness self-check)
        for e in out:
            assert e["idx"] == batches[e["b"]][e["j"]], "loader delivered a different sample than planned"
        conn.send(("ok", out))
    except BaseException as e:  # noqa
        conn.send(("raise", f"{type(e).__name__}: {str(e)[:300]}"))


def loader_trace(c):
    """real DataLoader worker processes; runs in a forked child under a deadline"""
    import multiprocessing as mp
    ctx = mp.get_context("fork")
    a, b = ctx.Pipe()
    p = ctx.Process(target=_loader_child, args=(c, b))
    p.start()
    ev = None
    if a.poll(120):
        kind, payload = a.recv()
        if kind == "ok":
            iname, ispec, imembers = INNERS[c["inner"]]
            ref = InnerRef(imembers)
            ev = []
            for e in payload:
                w = ref.want(c["schedv"][e["b"]])
                ev.append(dict(a="s", b=e["b"], r=e["r"], j=e["j"], ctx=e["ctx"], app=e["app"],
                               ilv=e["ilv"] if e["ilv"] is not None else w, wlv=w, why=""))
        else:
            ev = [dict(a="raise", b=0, r=0, j=0, ctx=NOCTX, app=NOCTX, ilv=[], wlv=[], why=payload)]
    else:
        ev = [dict(a="raise", b=0, r=0, j=0, ctx=NOCTX, app=NOCTX, ilv=[], wlv=[], why="Diverge: no result within 120 s")]
    p.join(timeout=5)
    if p.is_alive():
        p.kill()
    return ev


SCHEDS = ["default", "linear", "linear_excl", "cosine", "decreasing", "part", "custom"]
HOWS = ["updates", "samples", "epochs_drop", "epochs_keep"]


def sched_cfg(r, W, BS, NB, inner=None, sched=None, how=None, **extra):
    kind = sched or r.choice(SCHEDS)
    if kind == "custom":
        vals = [i / max(1, NB) for i in range(NB)]
        r.shuffle(vals)
        desc = ("custom", vals)
    else:
        desc = (kind,)
    how = how or r.choice(HOWS)
    c = dict(W=W, BS=BS, NB=NB, inner=r.randrange(len(INNERS)) if inner is None else inner, sched=desc, how=how,
             kw=how_kwargs(how, BS, NB, r), schedv=schedule_values(desc, NB))
    c.update(extra)
    return c


def sched_key(c):
    return (f"W={c['W']}:BS={c['BS']}:NB={c['NB']}:sched={c['sched'][0]}:how={c['how']}:inner={INNERS[c['inner']][0]}"
            f":mode={c.get('route', 'sim')}" + (":outer" if c.get("outer") else "") + (":manual" if c.get("manual") else "")
            + (f":pre={c['pre']}" if c.get("pre") else ""))


def sched_trace_cfg(c):
    return dict(W=c["W"], BS=c["BS"], NB=c["NB"], sched=[fp(v) for v in c["schedv"]])


# ================================================================ the check
SCALE_INVS = ["TypeOK", "C15_RestoreAtOne", "C15_CollapseAtZero", "C15_BetweenEnds", "C15_Monotone", "C15_LastFactorOnly",
              "C15_NoRefusal"]
# negative controls of the design models: (module, cfg, invariant TLC must refute, what it shows)
CONTROLS = [
    ("StrengthProps", "StrengthProps_shipped_restore.cfg", "C15_RestoreAtOne", "original colour-jitter upper bound 1 + (1 - ub) f"),
    ("StrengthProps", "StrengthProps_shipped_collapse.cfg", "C15_CollapseAtZero", "original hue upper bound max(0.5, ub f)"),
    ("StrengthProps", "StrengthProps_shipped_refusal.cfg", "C15_NoRefusal", "original rotation assert lb == ub"),
    ("StrengthProps", "StrengthProps_compound.cfg", "C15_LastFactorOnly", "scaling the current value instead of the constructed one"),
    ("StrengthProps", "StrengthProps_nofwd.cfg", "C15_CollapseAtZero", "composition forwards to its first member only"),
    ("StrengthSched", "StrengthSched_stride.cfg", "C15_ScheduleAtBatch", "batch index counter // BS + rank"),
    ("StrengthSched", "StrengthSched_norank.cfg", "C15_ScheduleAtBatch", "batch index without + rank"),
    ("StrengthSched", "StrengthSched_global.cfg", "C15_ScheduleAtBatch", "batch index counter // BS"),
    ("StrengthSched", "StrengthSched_refuse.cfg", "C15_InSchedule", "batch index (counter // BS + 1) * W + rank"),
    ("StrengthSched", "StrengthSched_partial.cfg", "C15_ScheduleAtBatch", "partial last batch of an epoch (outside the stated domain)"),
    ("StrengthSched", "StrengthSched_anyworker.cfg", "C15_ScheduleAtBatch", "a loader that does not dispatch round-robin"),
]


def top_class(spec):
    return {"compose": "KDComposeTransform", "compose_shared": "KDComposeTransform", "factory": "KDComposeTransform"}.get(spec[0], spec[0])


def empty_cfg(entry):
    return dict(name=spec_name(entry["spec"]), ident=int(entry["ident"]), collapse=int(entry["collapse"]),
                weak=[fp(w) for w in entry["weak"]], cons=dict(lv=[], dr=[]), zero=dict(lv=[], dr=[]), sidx=[],
                model=[dict(kind=k, og=[fp(x) for x in og], idx=[0] * len(og)) for k, og, _ in model_of(entry["spec"])])


def run(prop, tier, seed):
    import copy
    from concurrent.futures import ThreadPoolExecutor
    core.use_repo()
    import torch
    torch.set_num_threads(1)
    v = core.Verdict(prop, tier, seed)
    quick = tier == "quick"
    r = random.Random(seed * 7919 + 15)
    mc_workers = 6 if quick else 12
    rec_procs = 6 if quick else 10

    # ---------------- (M) design models, started in the background
    pool = ThreadPoolExecutor(max_workers=4)
    tier_cfg = "quick" if quick else "thorough"
    fut_scale = pool.submit(tlc.run_tlc, "StrengthProps", f"StrengthProps_{tier_cfg}.cfg", name=prop + "mcscale",
                            workers=mc_workers, coverage=True, timeout=3000)
    fut_scale2 = None if quick else pool.submit(tlc.run_tlc, "StrengthProps", "StrengthProps_thorough2.cfg", name=prop + "mcscale2",
                                                workers=mc_workers, coverage=True, timeout=3000)
    fut_sched = pool.submit(tlc.run_tlc, "StrengthSched", f"StrengthSched_{tier_cfg}.cfg", name=prop + "mcsched",
                            workers=2 if quick else 6, coverage=True, timeout=3000)
    fut_ctl = [pool.submit(tlc.run_tlc, m, c, name=prop + "ctl" + str(i), workers=1, timeout=600, heap="1g")
               for i, (m, c, _, _) in enumerate(CONTROLS)]

    # ---------------- catalogue
    leaves = leaf_catalogue()
    comps = compositions(r, leaves, 40 if quick else 300)
    pipes = pipeline_entries()
    entries = leaves + comps + pipes
    found, broken = supporting_classes()
    covered = set().union(*[classes_in(e["spec"]) for e in entries])
    if found - covered:
        raise tlc.TLCError(f"catalogue hole: classes that support strength scaling without a catalogue entry: {sorted(found - covered)}")

    # ---------------- (T) scaling traces from the real transforms
    jobs = []
    first_of_class = {}
    L_all, L_cls = (2, 3) if quick else (3, 4)
    for ei, e in enumerate(entries):
        kind = "leaf" if ei < len(leaves) else ("comp" if ei < len(leaves) + len(comps) else "pipe")
        seqs = []
        if kind == "leaf":
            seqs += list(grid_sequences(L_all))
            cls = e["spec"][0]
            if cls not in first_of_class and e["spec"][1] and not (cls == "KDRandomRotation" and e["spec"][1]["degrees"] in (0,)):
                first_of_class[cls] = ei
                deep = [q for q in grid_sequences(L_cls) if len(q) == L_cls]
                if quick:
                    r.shuffle(deep)
                    deep = deep[:50]
                seqs += deep
            seqs += [random_sequence(r, r.randint(3, 8)) for _ in range(3 if quick else 40)]
        else:
            g = list(grid_sequences(2))
            r.shuffle(g)
            seqs += g[:10 if quick else 30]
            seqs += [random_sequence(r, r.randint(3, 6)) for _ in range(5 if quick else 30)]
            # the same factor again after a member was rescaled on its own in between (no caching of "last factor")
            for a_, b_ in ((FP // 2, FP), (FP, 0), (0, FP // 4), (FP // 4, FP // 4)):
                seqs.append([a_, -(b_ + 1), a_])
                seqs.append([b_, a_, -(b_ + 1), a_, a_])
        jobs.append((ei, e, [list(q) for q in seqs]))
    t_rec = time.time()
    rec = record_scaling(jobs, rec_procs)
    v.coverage["wall_record_scaling_s"] = round(time.time() - t_rec, 1)
    by_entry = {}
    for ei, cfg, meta, seqs in rec:
        d = by_entry.setdefault(ei, dict(cfg=cfg, meta=meta, seqs=[]))
        d["seqs"] += seqs
    traces, tmeta = [], {}
    unconstructible, unusable, nonfinite_skipped = [], [], 0
    for ei, e, seqs in jobs:
        d = by_entry[ei]
        m = d["meta"]
        if d["cfg"] is None and "unconstructible" in m:
            if top_class(e["spec"]) in PIPELINE_MODULES:
                unconstructible.append(f"{m['name']}: {m['unconstructible']}")
                continue
            raise tlc.TLCError(f"catalogue entry cannot be constructed: {m['name']}: {m['unconstructible']}")
        if d["cfg"] is None and "unusable" in m:
            # the unscaled instance cannot process the probe input: an invalid pipeline of the generator, not a C15 subject
            if top_class(e["spec"]) == "KDComposeTransform" or top_class(e["spec"]) in PIPELINE_MODULES:
                unusable.append(f"{m['name']}: {m['unusable']}")
                continue
            raise tlc.TLCError(f"catalogue entry cannot be applied to its probe input as constructed: {m['name']}: {m['unusable']}")
        nonfinite_skipped += m.get("nonfinite", 0)
        if d["cfg"] is None:
            # a fresh instance refuses scale_strength (or a call): one trace, one refusal event
            tid = len(traces) + 1
            traces.append(dict(id=tid, cfg=empty_cfg(e), ev=[dict(a="raise", f=0, lv=[], dr=[], id=0, fr=[], fdr=[], solo=[],
                                                              why=m["refusal"])]))
            tmeta[tid] = (ei, [0], m)
            continue
        for q, ev in d["seqs"]:
            tid = len(traces) + 1
            traces.append(dict(id=tid, cfg=d["cfg"], ev=ev))
            tmeta[tid] = (ei, q, m)

    # ---------------- (T) scheduled transform traces
    straces, smeta = [], {}

    def add_s(c, ev):
        tid = len(straces) + 1
        straces.append(dict(id=tid, cfg=sched_trace_cfg(c), ev=ev))
        smeta[tid] = c

    for W in (1, 2, 3):
        for BS in (1, 2, 3):
            for NB in range(1, 8):
                for rep in range(2 if quick else 6):
                    c = sched_cfg(r, W, BS, NB, outer=r.random() < 0.25, manual=(W == 1 and r.random() < 0.5),
                                  pre=r.choice((0, 0, 1, 2, 5)))
                    add_s(c, sim_trace(c, r))
    for _ in range(80 if quick else 800):
        c = sched_cfg(r, r.randint(1, 8), r.randint(1, 16), r.randint(1, 40), outer=r.random() < 0.25,
                      manual=r.random() < 0.3, pre=r.choice((0, 0, 1, 3, 17)))
        add_s(c, sim_trace(c, r))
    loader_plan = [(1, "direct"), (2, "direct"), (3, "direct"), (2, "wrapper"), (3, "wrapper"), (1, "wrapper")]
    if not quick:
        loader_plan = loader_plan * 4 + [(4, "direct"), (5, "wrapper"), (6, "direct")]
    for i, (W, route) in enumerate(loader_plan):
        c = sched_cfg(r, W, r.randint(1, 4), r.randint(max(1, W - 1), 9), inner=i % len(INNERS), route=route,
                      seed=seed * 100 + i, pre=(0, 2, 1)[i % 3] if route == "direct" else 0)
        add_s(c, loader_trace(c))

    v.coverage["wall_record_total_s"] = round(time.time() - t_rec, 1)
    if os.environ.get("VERIF_DEBUG"):
        print("recorded", v.coverage["wall_record_scaling_s"], v.coverage["wall_record_total_s"], len(traces), len(straces), flush=True)
    # ---------------- TLC validates the traces
    t_jobs = 6 if quick else 10
    f_tv = pool.submit(validate_traces, "StrengthTrace", "StrengthTrace.cfg", traces, prop + "tv", t_jobs,
                       ("DESCFIXED", "DESCSHIPPED"))
    f_stv = pool.submit(validate_traces, "StrengthSchedTrace", "StrengthSchedTrace.cfg", straces, prop + "stv", 2 if quick else 4,
                        ("ROUNDROBIN",))

    # ---------------- collect (M)
    res = fut_scale.result()
    if os.environ.get("VERIF_DEBUG"):
        print("mc scale", round(res.wall_s, 1), res.distinct_states, "at", round(time.time() - v.t0, 1), flush=True)
    v.add_tlc(res, f"StrengthProps {tier_cfg}: compositions x factor sequences, Variant=fixed")
    for nm in res.violated:
        v.violation(f"model:{nm}", f"design model StrengthProps (Variant=fixed) violates {nm}", dict(cex=str(res.cex)[:6000]))
    for act in ("Configure", "BeginScale", "ScaleMember", "EndScale"):
        if res.coverage.get(act, (0, 0))[1] == 0:
            raise tlc.TLCError(f"vacuity: action {act} of StrengthProps never taken")
    if fut_scale2 is not None:
        res = fut_scale2.result()
        v.add_tlc(res, "StrengthProps thorough2: pairs over the whole fine grid, Variant=fixed")
        for nm in res.violated:
            v.violation(f"model:{nm}", f"design model StrengthProps (Variant=fixed) violates {nm}", dict(cex=str(res.cex)[:6000]))
    res2 = fut_sched.result()
    v.add_tlc(res2, f"StrengthSched {tier_cfg}: W x BS x epochs x batches, every interleaving, Variant=shipped")
    for nm in res2.violated:
        v.violation(f"model:{nm}", f"design model StrengthSched violates {nm}", dict(cex=str(res2.cex)[:6000]))
    for act in ("Configure", "Hand", "PTake", "PApply"):
        if res2.coverage.get(act, (0, 0))[1] == 0:
            raise tlc.TLCError(f"vacuity: action {act} of StrengthSched never taken")
    controls = []
    for (m, c, inv, what), f in zip(CONTROLS, fut_ctl):
        rc = f.result()
        v.coverage["states"] += rc.distinct_states
        v.coverage["transitions"] += rc.states_generated
        if inv not in rc.violated:
            raise tlc.TLCError(f"negative control failed: {m}/{c} should violate {inv} ({what}), TLC reports {rc.violated}")
        controls.append(dict(cfg=c, refuted=inv, what=what, states=rc.distinct_states))
    v.coverage["negative_controls_model"] = controls

    # ---------------- collect (T) scaling
    acc, rej, st, extra = f_tv.result()
    if os.environ.get("VERIF_DEBUG"):
        print("tv done at", round(time.time() - v.t0, 1), flush=True)
    v.coverage["states"] += st["states"]
    v.coverage["transitions"] += st["transitions"]
    groups = {}
    for tid in sorted(rej):
        ei, q, m = tmeta[tid]
        pos, clauses = rej[tid]
        k = (top_class(entries[ei]["spec"]), tuple(clauses))
        cur = groups.get(k)
        cand = (len(q), len(m["name"]), tid)
        if cur is None or cand < cur[0]:
            groups[k] = (cand, sum(1 for t2 in rej if (top_class(entries[tmeta[t2][0]]["spec"]), tuple(rej[t2][1])) == k))
    by_id = {t["id"]: t for t in traces}
    rank = lambda cls: 2 if cls in PIPELINE_MODULES else (1 if cls == "KDComposeTransform" else 0)
    for (cls, clauses), ((_, _, tid), count) in sorted(groups.items(), key=lambda kv: (rank(kv[0][0]), len(kv[0][1]), kv[0])):
        ei, q, m = tmeta[tid]
        pos, _ = rej[tid]
        t = by_id[tid]
        e = t["ev"][pos - 1]
        key = f"scale:{m['name']}:factors={'/'.join(str(x) for x in q[:pos])}"
        what = (f"clauses {list(clauses)} fail after scale_strength({e['f'] / FP}) (event {pos}) on a real {cls}: "
                f"leaves {dict(zip(m['paths'], e['lv']))} ranges {e['dr']} identity={e['id']} {e['why']}; constructed leaves "
                f"{t['cfg']['cons']['lv']} ranges {t['cfg']['cons']['dr']}; fresh instance at this factor {e['fr']} "
                f"({count} rejected traces in this group)")
        v.violation(key, what, dict(entry=m["name"], factors=q, paths=m["paths"], cfg=t["cfg"], ev=t["ev"], event=pos,
                                    clauses=list(clauses)))
    # ---------------- collect (T) scheduled
    sacc, srej, sst, sextra = f_stv.result()
    v.coverage["states"] += sst["states"]
    v.coverage["transitions"] += sst["transitions"]
    sby = {t["id"]: t for t in straces}
    seen_keys = set()
    for tid in sorted(srej, key=lambda i: len(sby[i]["ev"])):
        c = smeta[tid]
        pos, clauses = srej[tid]
        k = (tuple(clauses), c.get("route", "sim"))
        if k in seen_keys:
            continue
        seen_keys.add(k)
        e = sby[tid]["ev"][pos - 1]
        v.violation("sched:" + sched_key(c), f"clauses {clauses} fail at sample {pos} (batch {e['b']}, worker {e['r']}, position "
                    f"{e['j']}): applied {e['app']} ctx {e['ctx']} schedule value at b {sby[tid]['cfg']['sched'][e['b']] if e['a'] == 's' else None} "
                    f"{e['why']}", dict(cfg=c, trace=sby[tid], event=pos, clauses=clauses))
    # ---------------- negative controls of the trace validation (a corrupted accepted trace must be rejected)
    ctl_traces, ctl_expect = [], {}
    good = [t for t in traces if t["id"] in acc and t["ev"] and t["ev"][-1]["lv"]]

    def corrupt(pick, edit, clause):
        for t in good:
            if pick(t):
                c = copy.deepcopy(t)
                c["id"] = 900000 + len(ctl_traces)
                edit(c)
                ctl_traces.append(c)
                ctl_expect[c["id"]] = clause
                return
    corrupt(lambda t: t["ev"][-1]["f"] == FP, lambda c: c["ev"][-1]["lv"].__setitem__(0, c["ev"][-1]["lv"][0] + 1000), "RestoreAtOne")
    corrupt(lambda t: t["ev"][-1]["f"] == 0 and t["cfg"]["ident"] == 1, lambda c: c["ev"][-1].__setitem__("id", 0), "IdentityAtZero")
    corrupt(lambda t: t["ev"][-1]["f"] == 0 and t["cfg"]["collapse"] == 1 and t["ev"][-1]["dr"],
            lambda c: c["ev"][-1]["dr"].__setitem__(1, c["ev"][-1]["dr"][1] + 5000), "DegenerateAtZero")
    corrupt(lambda t: 0 < t["ev"][-1]["f"] < FP, lambda c: c["ev"][-1]["fr"].__setitem__(0, c["ev"][-1]["fr"][0] + 777), "LastFactorOnly")
    corrupt(lambda t: len(t["ev"]) >= 2 and t["ev"][0]["f"] < t["ev"][1]["f"] < FP and t["ev"][0]["lv"] != t["ev"][1]["lv"],
            lambda c: (c["ev"][1].__setitem__("lv", list(c["ev"][0]["lv"])), c["ev"][0].__setitem__("lv", list(c["ev"][1]["fr"])),
                       c["ev"][0].__setitem__("fr", list(c["ev"][1]["fr"])), c["ev"][1].__setitem__("fr", list(c["ev"][1]["lv"]))),
            "Monotone")
    corrupt(lambda t: t["cfg"]["sidx"], lambda c: c["ev"][-1]["solo"].__setitem__(0, c["ev"][-1]["solo"][0] + 999), "ThroughCompositions")
    sctl, sctl_expect = [], {}
    sgood = [t for t in straces if t["id"] in sacc and len(t["ev"]) >= 2]
    for field, clause in (("app", "ScheduleAtBatch"), ("ctx", "CtxReports")):
        if sgood:
            c = copy.deepcopy(sgood[len(sgood) // 2])
            c["id"] = 900000 + len(sctl)
            c["ev"][-1][field] += 4321
            sctl.append(c)
            sctl_expect[c["id"]] = clause
    if sgood:
        c = copy.deepcopy(sgood[0])
        c["id"] = 900000 + len(sctl)
        c["ev"].pop()
        sctl.append(c)
        sctl_expect[c["id"]] = "AllSamples"
    f_ctl_tv = pool.submit(validate_traces, "StrengthTrace", "StrengthTrace.cfg", ctl_traces, prop + "ctv", 1)
    f_ctl_stv = pool.submit(validate_traces, "StrengthSchedTrace", "StrengthSchedTrace.cfg", sctl, prop + "cstv", 1)
    ctl_problem = None

    for fut, expect, nm in ((f_ctl_tv, ctl_expect, "StrengthTrace"), (f_ctl_stv, sctl_expect, "StrengthSchedTrace")):
        _, crej, cst, _ = fut.result()
        v.coverage["states"] += cst["states"]
        v.coverage["transitions"] += cst["transitions"]
        for cid, clause in expect.items():
            if cid not in crej or clause not in crej[cid][1]:
                ctl_problem = f"negative control failed: {nm} accepted a trace corrupted to violate {clause} ({crej.get(cid)})"
    if ctl_problem is None and (len(ctl_expect) < 6 or len(sctl_expect) < 3):
        ctl_problem = f"negative controls could not be built ({sorted(ctl_expect.values())}, {sorted(sctl_expect.values())})"
    if ctl_problem:
        if not v.violations:
            raise tlc.TLCError(ctl_problem)
        v.notes.append(ctl_problem + " (violations present: not all accepted traces needed for the controls exist)")
    v.coverage["negative_controls_traces"] = sorted(ctl_expect.values()) + sorted(sctl_expect.values())
    pool.shutdown()

    # ---------------- evidence
    n_tr = len(traces) + len(straces)
    v.coverage["traces_validated_against_impl"] = n_tr
    v.coverage["evaluations"] = n_tr
    v.coverage["scale_traces"] = len(traces)
    v.coverage["scale_events"] = sum(len(t["ev"]) for t in traces)
    v.coverage["sched_traces"] = len(straces)
    v.coverage["sched_samples"] = sum(len(t["ev"]) for t in straces)
    v.coverage["loader_runs"] = len(loader_plan)
    nontriv = set()
    for t in traces:
        ei, q, m = tmeta[t["id"]]
        if len(q) >= 2 and (m["paths"] or t["cfg"]["cons"]["dr"]):
            nontriv.add((m["name"], tuple(q)))
    for t in straces:
        c = smeta[t["id"]]
        if c["W"] >= 2 and c["NB"] > c["W"]:
            nontriv.add(("sched", sched_key(c), t["id"]))
    v.coverage["distinct_nontrivial"] = len(nontriv)
    v.coverage["rule"] = ("scaling case = (catalogue instance, factor sequence): every class that supports scaling x constructor "
                          "variants x all sequences over {0,1/4,1/2,3/4,1} up to the tier's length, seeded random compositions "
                          "and factor sequences in [0,1]; non-trivial = at least two factors on an instance whose parameters "
                          "scaling changes; distinct by (instance, sequence). scheduled case = (W, BS, NB, schedule, how the "
                          "length is given, wrapped transform, interleaving/real loader); non-trivial = at least two workers "
                          "and more batches than workers")
    v.coverage["exhaustive"] = False
    v.coverage["classes_supporting_scaling"] = sorted(found)
    v.coverage["catalogue_entries"] = dict(single=len(leaves), compositions=len(comps), pipelines=len(pipes))
    bound = [t["id"] for t in traces if t["cfg"]["model"]]
    v.coverage["descriptive_model_conformance"] = dict(
        bound_traces=len(bound), follow_fixed=len(extra["DESCFIXED"]), follow_shipped=len(extra["DESCSHIPPED"]),
        follow_neither=len([i for i in bound if i not in extra["DESCFIXED"] and i not in extra["DESCSHIPPED"]]))
    v.coverage["round_robin_assumption_holds"] = f"{len(sextra['ROUNDROBIN'])}/{len(straces)}"
    neither = sorted({tmeta[i][2]["name"] for i in bound if i not in extra["DESCFIXED"] and i not in extra["DESCSHIPPED"]})
    if neither:
        print(f"NOTE property={prop}: {len(neither)} instances follow neither transcription of the descriptive model "
              f"(no verdict): {neither[:4]}")
        v.notes.append(f"instances that follow neither descriptive variant: {neither[:10]}")
    if len(sextra["ROUNDROBIN"]) != len(straces):
        v.notes.append("some loader runs did not assign batch b to worker b mod W (environment assumption of StrengthSched.tla)")
    for u in unconstructible:
        v.notes.append(f"ready-made pipeline cannot be constructed at all (outside C15, no instance exists): {u}")
        print(f"NOTE property={prop}: pipeline cannot be constructed (outside C15): {u}")
    if unusable:
        v.notes.append(f"{len(unusable)} generated compositions dropped because they cannot process the probe input even unscaled: {unusable[:3]}")
    v.coverage["compositions_dropped_unusable"] = len(unusable)
    if broken:
        v.notes.append(f"modules that cannot be imported (their classes are not covered): {broken}")
    v.notes.append(f"{nonfinite_skipped} leaves skipped because they are not finite in a reference snapshot (magnitude_std=inf)")
    ex = [t for t in traces if len(t["ev"]) == 3 and t["cfg"]["sidx"]][:1] + [t for t in traces if len(t["ev"]) >= 4][:1]
    for t in ex:
        v.sample(dict(kind="scaling", instance=t["cfg"]["name"], paths=tmeta[t["id"]][2]["paths"], cfg={k: t["cfg"][k] for k in ("ident", "collapse", "weak", "cons", "zero")},
                      ev=[{k: e[k] for k in ("a", "f", "lv", "dr", "id", "fr", "solo")} for e in t["ev"]]))
    for t in [t for t in straces if smeta[t["id"]].get("route")][:1] + [t for t in straces if smeta[t["id"]]["W"] == 3][:1]:
        v.sample(dict(kind="scheduled", case=sched_key(smeta[t["id"]]), cfg=t["cfg"], ev=t["ev"][:8]))
    v.assumptions += [
        "fixed point 10^-6 with tolerance 2 units: 'exactly' means equal at that resolution",
        "parameter leaves = numeric attributes (generic walk) that differ between call-free snapshots cons/Scale(0)/Scale(1/2)/Scale(1); "
        "leaves that are not finite there (magnitude_std=inf) are outside the comparison",
        "identity at factor 0 is an output comparison on probe images (float tensors with tolerance 1e-5, PIL exact) under edge "
        "generators and two seeded generators, not an algebraic proof about torchvision operators",
        "weakest settings (colour factor 1, hue 0, blur sigma = lower bound, solarize 256 / 1.0, p 0, 0 degrees, magnitude 0) are read "
        "from the documentation of the classes",
        "scheduled transform: full batches, one loader pass over all batches (as the interleaved sampler produces), torch "
        "DataLoader in-order dispatch (batch b to worker b mod W) and fork start method",
        "TLC and the CommunityModules Json reader are trusted",
    ]
    return v.finish()
