"""C17: KDDinoMaskCollator / KDIjepaMaskCollator emit well-formed, budget-respecting, non-overlapping masks.

(M) TLC checks the algorithms (specs/MasksDino.tla, specs/MasksIjepa.tla: one action per decision of the code) against
    the normative clauses of specs/Masks.tla for every configuration of a small grid (MasksDinoProps / MasksIjepaProps),
    with reachability probes (named actions) for the antecedents of the conditional clauses and mutated models as
    negative controls.
(T) The REAL collators are called at the public API (collator(samples) -> (batch, ctx)); ctx["mask"] /
    ctx["encoder_masks"] / ctx["predictor_masks"] are projected to integer lists and TLC evaluates the same normative
    operators on them (specs/MasksTrace.tla).  Cases: a seeded sample (thorough: all) of an exhaustive small grid of
    configurations + seeded random larger configurations.  Corrupted copies of accepted traces must be rejected
    (negative control).  Calls of the private KDDinoMaskCollator._mask_block are recorded when the method exists and
    checked for conformance with MasksDino.tla (never verdict-bearing).
"""
import hashlib
import math
import os
import random
import signal
import sys
import time
from concurrent.futures import ThreadPoolExecutor
from fractions import Fraction

os.environ.setdefault("OMP_NUM_THREADS", "1")
os.environ.setdefault("MKL_NUM_THREADS", "1")

from kdverif import core, tlc, tracecheck

CPU_DEADLINE_S = 20.0  # per call into the repository, process CPU time (robust against machine load)

DINO_CLAUSES = ["D_OnePerViewSample", "D_Boolean", "D_Budget", "D_UpperRatio", "PassThrough", "NoError", "Terminates"]
IJEPA_CLAUSES = ["J_Layout", "J_InRange", "J_SortedDupFree", "J_PredRect", "J_PredCommonSize", "J_Disjoint",
                 "J_EncCommonLen", "J_StepSizes_EncBlock", "J_StepSizes", "PassThrough", "NoError", "Terminates"]


# ---------------------------------------------------------------- deadline (non-termination is an observation)
class Diverge(BaseException):
    pass


def _on_alarm(signum, frame):
    raise Diverge()


def with_deadline(fn):
    signal.signal(signal.SIGVTALRM, _on_alarm)
    signal.setitimer(signal.ITIMER_VIRTUAL, CPU_DEADLINE_S)
    try:
        return fn()
    finally:
        signal.setitimer(signal.ITIMER_VIRTUAL, 0)


# ---------------------------------------------------------------- canonical bytes of batch data (equality classes)
def canon(obj, h):
    import torch
    if isinstance(obj, torch.Tensor):
        t = obj.detach().cpu().contiguous()
        h.update(b"T" + str(t.dtype).encode() + str(tuple(t.shape)).encode())
        h.update(t.numpy().tobytes())
    elif isinstance(obj, (list, tuple)):
        h.update(b"L%d[" % len(obj))
        for o in obj:
            canon(o, h)
        h.update(b"]")
    elif isinstance(obj, dict):
        h.update(b"D{")
        for k in sorted(obj):
            h.update(str(k).encode())
            canon(obj[k], h)
        h.update(b"}")
    else:
        h.update(b"O" + repr((type(obj).__name__, obj)).encode())


def digest(obj):
    h = hashlib.sha256()
    canon(obj, h)
    return h.hexdigest()


class Classes:
    """equality-class ids: first distinct value in a trace = 1, next = 2, ..."""

    def __init__(self):
        self.ids = {}

    def of(self, dg):
        return self.ids.setdefault(dg, len(self.ids) + 1)


# ---------------------------------------------------------------- harness samples (fresh objects on every call)
def make_samples(B, shape, views, as_list, salt):
    """samples of a ModeWrapper(mode="index x", return_ctx=True) dataset: ((index, x), ctx)"""
    import torch

    def x_of(i):
        def one(v):
            return torch.full(shape, float(salt * 1000 + i * 10 + v))
        if as_list:
            return [one(v) for v in range(views)]
        return one(0)

    return [((i + salt, x_of(i)), {}) for i in range(B)]


def expected_batch(samples):
    from torch.utils.data import default_collate
    return default_collate([s[0] for s in samples])


def rows_of(t):
    """a 2-d index tensor (or a list of 1-d tensors) as list of int lists"""
    import torch
    if isinstance(t, torch.Tensor):
        if t.dim() != 2:
            raise ValueError(f"index tensor of dim {t.dim()}")
        return [[int(v) for v in r] for r in t.tolist()]
    return [[int(v) for v in (r.tolist() if isinstance(r, torch.Tensor) else r)] for r in t]


def exc_event(e):
    import traceback
    tb = traceback.extract_tb(e.__traceback__)
    own = [f for f in tb if "kappadata" in f.filename] or list(tb)
    where = f"{os.path.basename(own[-1].filename)}:{own[-1].lineno} {own[-1].name}" if own else "?"
    return dict(a="exc", type=type(e).__name__, msg=str(e)[:200], where=where)


# ---------------------------------------------------------------- DINO
def frac_pair(fr):
    return [fr.numerator, fr.denominator]


def dino_key(c):
    return (f"dino:H={c['H']},W={c['W']},V={c['V']},p={c['p'][0]}/{c['p'][1]},rmin={c['rmin'][0]}/{c['rmin'][1]},"
            f"rmax={c['rmax'][0]}/{c['rmax'][1]},minp={c['minp']},asp={c['asp']},aslist={int(c['aslist'])}{'+%d' % (c['XV'] - c['V']) if c.get('XV', c['V']) != c['V'] else ''},"
            f"Bs={'-'.join(map(str, c['Bs']))},seed={c['seed']}")


def record_dino(c, want_blocks=False):
    """c: H W V p rmin rmax (pairs) minp asp (min_aspect x100, max_aspect x100 or 0) aslist Bs seed"""
    import numpy as np
    import torch
    from kappadata.collators.kd_dino_mask_collator import KDDinoMaskCollator
    ev, blocks = [], []
    cls = Classes()
    try:
        col = KDDinoMaskCollator(
            mask_ratio=(c["rmin"][0] / c["rmin"][1], c["rmax"][0] / c["rmax"][1]),
            mask_prob=c["p"][0] / c["p"][1],
            mask_size=(c["H"], c["W"]),
            num_views=c["V"],
            min_num_patches=c["minp"],
            min_aspect=c["asp"][0] / 100,
            max_aspect=(c["asp"][1] / 100) if c["asp"][1] else None,
            dataset_mode="index x", return_ctx=True)
        col.set_rng(np.random.default_rng(c["seed"]))
    except Exception as e:  # noqa
        return [exc_event(e)], blocks
    if want_blocks and hasattr(col, "_mask_block"):
        orig = col._mask_block

        def wrapped(mask, remaining, *a, **k):
            before = mask.flatten().nonzero().flatten().tolist()
            delta = orig(mask, remaining, *a, **k)
            after = mask.flatten().nonzero().flatten().tolist()
            if len(blocks) < 40:
                blocks.append(dict(a="blk", before=before, remaining=int(remaining), delta=int(delta), after=after))
            return delta

        col._mask_block = wrapped
    for ci, B in enumerate(c["Bs"]):
        shape = (1, 2, 2)
        samples = make_samples(B, shape, c.get("XV", c["V"]), c["aslist"], ci)
        exp = digest(expected_batch(make_samples(B, shape, c.get("XV", c["V"]), c["aslist"], ci)))
        try:
            batch, ctx = with_deadline(lambda: col(samples))
            m = ctx["mask"]
            if not isinstance(m, torch.Tensor):
                m = torch.stack(list(m))
            flat = m.reshape(m.shape[0], -1) if m.dim() >= 1 and m.shape[0] > 0 else m.reshape(0, 0)
            ev.append(dict(a="call", B=B, shape=[int(s) for s in m.shape], isbool=bool(m.dtype == torch.bool),
                           m=[r.nonzero().flatten().tolist() for r in flat],
                           bin=cls.of(exp), bout=cls.of(digest(batch))))
        except Diverge:
            ev.append(dict(a="diverge", B=B))
            break
        except Exception as e:  # noqa
            ev.append(dict(exc_event(e), B=B))
            break
    return ev, blocks


# ---------------------------------------------------------------- I-JEPA: domain oracle (harness side)
def _hw(max_keep, ar, H, W):
    h = int(round(math.sqrt(max_keep * ar)))
    w = int(round(math.sqrt(max_keep / ar)))
    return min(h, H - 1), min(w, W - 1)


def ijepa_domain(H, W, es, ps, ar):
    """Bounds over every value of the size-sampling variable rand in [0, 1):
    returns (general_domain_ok, encMinArea (exact), predMaxArea (upper bound)).
    es / ps / ar = (lo, hi) floats of encoder scale, predictor scale, predictor aspect ratio."""
    if H < 2 or W < 2:
        return False, 0, 0
    n = H * W
    e_lo = int(n * es[0])
    eh, ew = _hw(e_lo, 1.0, H, W)  # encoder aspect ratio is fixed to 1: size is monotone in rand
    p_lo, p_hi = int(n * ps[0]), int(n * ps[1])
    h_min = min(int(round(math.sqrt(p_lo * ar[0]))), H - 1)
    w_min = min(int(round(math.sqrt(p_lo / ar[1]))), W - 1)
    h_max = min(int(round(math.sqrt(p_hi * ar[1]))), H - 1)
    w_max = min(int(round(math.sqrt(p_hi / ar[0]))), W - 1)
    ok = eh >= 1 and ew >= 1 and h_min >= 1 and w_min >= 1
    return ok, eh * ew, h_max * w_max


# ---------------------------------------------------------------- I-JEPA: encoder block witness search
def enc_feasible(H, W, P, B, enc, pred, ks):
    """For every encoder row r: F[r][k] = boolean array [top, left, eh, ew] of the blocks that explain the row as
    (block minus the predictor masks of its sample selected by bit mask k), cut to its length.
    Returns list of dicts k -> array."""
    import numpy as np
    tops = np.arange(H).reshape(H, 1, 1, 1)
    lefts = np.arange(W).reshape(1, W, 1, 1)
    ehs = np.arange(H + 1).reshape(1, 1, H + 1, 1)
    ews = np.arange(W + 1).reshape(1, 1, 1, W + 1)
    inside = (ehs >= 1) & (ews >= 1) & (tops + ehs <= H) & (lefts + ews <= W)
    bot = np.minimum(tops + ehs, H)
    right = np.minimum(lefts + ews, W)
    out = []
    for r, row in enumerate(enc):
        b = r % B
        res = {}
        for k in ks:
            forb = set()
            for p in range(P):
                if (k >> p) & 1:
                    forb.update(pred[p * B + b])
            if any(x in forb for x in row):
                res[k] = None
                continue
            ok = inside
            if row:
                rs = [x // W for x in row]
                cs = [x % W for x in row]
                r0, r1, c0, c1 = min(rs), max(rs), min(cs), max(cs)
                ok = ok & (tops <= r0) & (tops + ehs > r1) & (lefts <= c0) & (lefts + ews > c1)
                mx = max(row)
                rowset = set(row)
                z = np.zeros((H, W), dtype=np.int64)
                for x in range(mx):
                    if x not in rowset and x not in forb:
                        z[x // W, x % W] = 1
                if z.any():
                    integ = np.zeros((H + 1, W + 1), dtype=np.int64)
                    integ[1:, 1:] = z.cumsum(0).cumsum(1)
                    cnt = integ[bot, right] - integ[tops, right] - integ[bot, lefts] + integ[tops, lefts]
                    ok = ok & (cnt == 0)
            res[k] = ok if ok.any() else None
        out.append(res)
    return out


def size_matrix(feas_row):
    """sizes (eh, ew) explaining a row for some position and some k"""
    import numpy as np
    m = None
    for k, f in feas_row.items():
        if f is not None:
            s = f.any(axis=(0, 1))
            m = s if m is None else (m | s)
    return m


def call_sizes(H, W, P, B, enc, pred):
    """boolean matrix [eh, ew] of encoder block sizes that explain EVERY encoder row of the call, and the per-row
    feasibility tables"""
    import numpy as np
    ok_shape = (len(pred) == P * B and all(0 <= x < H * W for row in list(enc) + list(pred) for x in row))
    if not ok_shape or not enc:
        return None, None
    full = (1 << P) - 1
    every = sorted(range(full + 1), key=lambda m: (-bin(m).count("1"), -m))  # all predictor masks applied first
    feas = enc_feasible(H, W, P, B, enc, pred, [full])
    if any(size_matrix(f) is None for f in feas):
        feas = enc_feasible(H, W, P, B, enc, pred, every)
    common = np.ones((H + 1, W + 1), dtype=bool)
    for f in feas:
        m = size_matrix(f)
        if m is None:
            return None, feas
        common &= m
    if not common.any():
        feas = enc_feasible(H, W, P, B, enc, pred, every)
        common = np.ones((H + 1, W + 1), dtype=bool)
        for f in feas:
            m = size_matrix(f)
            if m is None:
                return None, feas
            common &= m
    return common, feas


def witness_for(feas, eh, ew, P):
    import numpy as np
    wit = []
    for f in feas:
        found = None
        for k in f:  # insertion order: all predictor masks applied first
            if f[k] is not None and f[k][:, :, eh, ew].any():
                top, left = np.argwhere(f[k][:, :, eh, ew])[0]
                found = [int(top), int(left), int(k)]
                break
        wit.append(found or [0, 0, (1 << P) - 1])
    return wit


def attach_witnesses(c, calls):
    """choose one encoder block size per step (common to all calls with that step if one exists), log it with the
    per-row positions.  Only a proposal: MasksTrace.tla verifies it (J_StepSizes_EncBlock, J_StepSizes)."""
    import numpy as np
    H, W, P = c["H"], c["W"], c["P"]
    info = []
    for e in calls:
        if e["a"] != "call":
            info.append(None)
            continue
        info.append(call_sizes(H, W, P, e["B"], e["enc"], e["pred"]))
    by_step = {}
    for e, inf in zip(calls, info):
        if inf is not None and inf[0] is not None:
            by_step.setdefault(e["step"], []).append(inf[0])
    chosen = {}
    for st, mats in by_step.items():
        common = np.logical_and.reduce(mats)
        if common.any():
            eh, ew = np.argwhere(common)[0]  # the smallest explaining block (lexicographic)
            chosen[st] = (int(eh), int(ew))
    for e, inf in zip(calls, info):
        if inf is None:
            continue
        common, feas = inf
        if common is None or not common.any():
            e["esz"], e["wit"] = [0, 0], [[0, 0, (1 << P) - 1] for _ in e["enc"]]
            continue
        eh, ew = chosen.get(e["step"]) or tuple(int(v) for v in np.argwhere(common)[0])
        if not common[eh, ew]:
            eh, ew = (int(v) for v in np.argwhere(common)[0])
        e["esz"], e["wit"] = [eh, ew], witness_for(feas, eh, ew, P)


# ---------------------------------------------------------------- I-JEPA: recording
def ijepa_key(c):
    return (f"ijepa:H={c['H']},W={c['W']},ps={c['ps']},P={c['P']},E={c['E']},minKeep={c['minKeep']},T={c['T']},"
            f"es={c['es'][0]}-{c['es'][1]},psc={c['psc'][0]}-{c['psc'][1]},ar={c['ar'][0]}-{c['ar'][1]},"
            f"inst={'|'.join('-'.join(map(str, b)) for b in c['Bs'])},seed={c['seed']}")


def fx(pair):
    """scale / aspect pairs are logged as fixed point x10^6 and turned into floats exactly this way"""
    return pair[0] / 1e6, pair[1] / 1e6


def record_ijepa(c):
    """c: H W ps (patch size) rem (input remainder) P E minKeep T es psc ar (x10^6 pairs) Bs (per instance: batch
    sizes per call) seed"""
    import numpy as np
    import torch
    from kappadata.collators.kd_ijepa_mask_collator import KDIjepaMaskCollator
    ev = []
    cls = Classes()
    H, W, ps = c["H"], c["W"], c["ps"]
    in_size = (H * ps + c["rem"], W * ps + c["rem"])
    for inst, Bs in enumerate(c["Bs"]):
        try:
            col = KDIjepaMaskCollator(
                input_size=in_size, patch_size=ps, encoder_mask_scale=fx(c["es"]), predictor_mask_scale=fx(c["psc"]),
                predictor_aspect_ratio=fx(c["ar"]), num_enc_masks=c["E"], num_pred_masks=c["P"],
                min_keep=c["minKeep"], tries=c["T"], dataset_mode="index x", return_ctx=True)
            col.set_rng(np.random.default_rng(c["seed"] * 7 + inst))
        except Exception as e:  # noqa
            ev.append(dict(exc_event(e), inst=inst, step=0, B=0))
            continue
        for step, B in enumerate(Bs):
            shape = (1,) + in_size
            salt = inst * 10 + step
            samples = make_samples(B, shape, 1, False, salt)
            exp = digest(expected_batch(make_samples(B, shape, 1, False, salt)))
            try:
                batch, ctx = with_deadline(lambda: col(samples))
                ev.append(dict(a="call", inst=inst, step=step, B=B, enc=rows_of(ctx["encoder_masks"]),
                               pred=rows_of(ctx["predictor_masks"]), bin=cls.of(exp), bout=cls.of(digest(batch)),
                               esz=[0, 0], wit=[]))
            except Diverge:
                ev.append(dict(a="diverge", inst=inst, step=step, B=B))
                break
            except Exception as e:  # noqa
                ev.append(dict(exc_event(e), inst=inst, step=step, B=B))
                break
    attach_witnesses(c, ev)
    return ev


# ---------------------------------------------------------------- configuration generators
def dino_small_grid():
    """exhaustive small grid: every combination below"""
    probs = [Fraction(0), Fraction(1, 4), Fraction(1, 3), Fraction(1, 2), Fraction(2, 3), Fraction(1)]
    ratios = [Fraction(0), Fraction(1, 4), Fraction(1, 2), Fraction(3, 4), Fraction(1)]
    for H in range(1, 5):
        for W in range(1, 5):
            for V in (1, 2):
                for p in probs:
                    for i, a in enumerate(ratios):
                        for b in ratios[i:]:
                            for minp in (1, 4):
                                yield dict(H=H, W=W, V=V, p=frac_pair(p), rmin=frac_pair(a), rmax=frac_pair(b),
                                           minp=minp, asp=[30, 0])


def finish_dino(c, r, max_b):
    c = dict(c)
    c["aslist"] = True if c["V"] > 1 else r.random() < 0.3
    # multi-crop batches: x lists more views (local crops) than the num_views global ones that get masks
    c["XV"] = c["V"] + (r.choice([0, 0, 1, 4]) if c["aslist"] else 0)
    c["Bs"] = [r.randint(1, max_b) for _ in range(r.choice([1, 2, 2, 3]))]
    c["seed"] = r.randrange(1 << 30)
    return c


def dino_random(r):
    H, W = r.randint(1, 16), r.randint(1, 16)
    if r.random() < 0.4:
        W = H
    d1, d2 = r.choice([2, 3, 4, 5, 8, 10, 20]), r.choice([2, 3, 4, 5, 8, 10, 20, 100])
    p = Fraction(r.randint(0, d1), d1)
    a, b = sorted([r.randint(0, d2), r.randint(0, d2)])
    asp = r.choice([[30, 0], [30, 0], [50, 0], [100, 0], [50, 300], [25, 100]])
    c = dict(H=H, W=W, V=r.choice([1, 1, 2, 2, 3]), p=frac_pair(p), rmin=frac_pair(Fraction(a, d2)),
             rmax=frac_pair(Fraction(b, d2)), minp=r.choice([1, 2, 4, 4, 8]), asp=asp)
    return finish_dino(c, r, 16 if H * W <= 100 else 8)


def ijepa_small_grid(max_g):
    """exhaustive small grid: degenerate scale / aspect ranges that force every predictor block size and every
    (square, then clamped) encoder block size"""
    for H in range(2, max_g + 1):
        for W in range(2, max_g + 1):
            n = H * W
            for ph in range(1, H):
                for pw in range(1, W):
                    for e in range(1, max(H, W)):
                        if e * e + 0.5 > n:
                            continue
                        psc = int(round((ph * pw + 0.5) / n * 1e6))
                        arv = int(round(ph / pw * 1e6))
                        es = int(round((e * e + 0.5) / n * 1e6))
                        area_e = min(e, H - 1) * min(e, W - 1)
                        for P in (1, 2):
                            for E in (1, 2):
                                for T in (1, 2):
                                    for mk in sorted({0, 1, 2, area_e - 1}):
                                        if 0 <= mk < area_e:
                                            yield dict(H=H, W=W, ps=1, rem=0, P=P, E=E, minKeep=mk, T=T,
                                                       es=[es, es], psc=[psc, psc], ar=[arv, arv])


def finish_ijepa(c, r, max_b, max_steps):
    c = dict(c)
    n_inst = r.choice([1, 2, 2, 3])
    steps = r.randint(1, max_steps)
    c["Bs"] = [[r.randint(1, max_b) for _ in range(steps if i == 0 else r.randint(1, steps))] for i in range(n_inst)]
    c["seed"] = r.randrange(1 << 30)
    return c


def ijepa_static(c):
    ok, enc_min, pred_max = ijepa_domain(c["H"], c["W"], fx(c["es"]), fx(c["psc"]), fx(c["ar"]))
    return ok and enc_min > c["minKeep"], enc_min, pred_max


def ijepa_random(r):
    while True:
        H, W = r.randint(2, 16), r.randint(2, 16)
        if r.random() < 0.5:
            W = H
        lo = r.uniform(0.2, 0.95)
        es = [int(lo * 1e6), int(min(1.0, lo + r.choice([0, 0.05, 0.15, 0.4])) * 1e6)]
        plo = r.uniform(0.02, 0.4)
        psc = [int(plo * 1e6), int(min(0.6, plo + r.choice([0, 0.05, 0.1, 0.2])) * 1e6)]
        alo = r.choice([0.5, 0.75, 1.0, 1.5])
        ar = [int(alo * 1e6), int((alo + r.choice([0, 0.25, 0.75, 1.0])) * 1e6)]
        P, E = r.randint(1, 4), r.choice([1, 1, 2])
        c = dict(H=H, W=W, ps=r.choice([1, 1, 2, 3]), rem=0, P=P, E=E, minKeep=0, T=r.choice([1, 2, 5, 20]),
                 es=es, psc=psc, ar=ar)
        if c["ps"] > 1 and r.random() < 0.5:
            c["rem"] = r.randint(1, c["ps"] - 1)
        ok, enc_min, pred_max = ijepa_static(c)
        if not ok:
            continue
        slack = enc_min - P * pred_max
        mode = r.random()
        if mode < 0.6 and slack > 0:
            c["minKeep"] = r.randint(0, slack - 1)  # disjointness domain
        else:
            c["minKeep"] = r.randint(max(0, slack), enc_min - 1)  # relaxation may trigger
        big = H * W > 100
        return finish_ijepa(c, r, 6 if big else 16, 3 if big else 6)


# ---------------------------------------------------------------- worker
def record_one(spec):
    kind, c = spec
    if kind == "dino":
        ev, blocks = record_dino(c, want_blocks=c.get("blocks", False))
        cfg = dict(H=c["H"], W=c["W"], V=c["V"], p=c["p"], rmax=c["rmax"], rmin=c["rmin"], minp=c["minp"],
                   asp=c["asp"], seed=c["seed"])
        out = [dict(kind="dino", key=dino_key(c), cfg=cfg, ev=ev)]
        if blocks:
            out.append(dict(kind="dinoblk", key="blk:" + dino_key(c), cfg=dict(H=c["H"], W=c["W"]), ev=blocks))
        return out
    ev = record_ijepa(c)
    ok, enc_min, pred_max = ijepa_static(c)
    cfg = dict(H=c["H"], W=c["W"], P=c["P"], E=c["E"], minKeep=c["minKeep"], T=c["T"], encMinArea=enc_min,
               predMaxArea=pred_max, es=c["es"], psc=c["psc"], ar=c["ar"], seed=c["seed"])
    return [dict(kind="ijepa", key=ijepa_key(c), cfg=cfg, ev=ev)]


def make_pool(procs):
    """the worker processes are forked here, before any helper thread exists"""
    import multiprocessing as mp
    return mp.get_context("fork").Pool(procs)


def record_all(pool, specs, procs):
    res = pool.map(record_one, specs, chunksize=max(1, len(specs) // (procs * 8)))
    return [t for group in res for t in group]


# ---------------------------------------------------------------- negative control: corrupted traces
def corruptions(traces, r):
    """copies of accepted traces with one observed field corrupted; each must be rejected with the named clause"""
    out = []

    def first(kind, pred):
        for t in traces:
            if t["kind"] == kind and pred(t):
                return t
        return None

    def clone(t, tag, clause):
        import copy
        c = copy.deepcopy(t)
        c["id"] = 900000 + len(out)
        c["expect"] = clause
        c["tag"] = tag
        out.append(c)
        return c

    def budget(t, e):
        return (e["B"] * t["cfg"]["V"] * t["cfg"]["p"][0]) // t["cfg"]["p"][1]

    def cap(t):
        return (t["cfg"]["H"] * t["cfg"]["W"] * t["cfg"]["rmax"][0]) // t["cfg"]["rmax"][1]

    t = first("dino", lambda t: t["ev"][0]["a"] == "call" and t["cfg"]["H"] * t["cfg"]["W"] > 1
              and budget(t, t["ev"][0]) < len(t["ev"][0]["m"]))
    if t:
        c = clone(t, "one patch in every mask", "D_Budget")
        c["ev"][0]["m"] = [m or [0] for m in c["ev"][0]["m"]]
    t = first("dino", lambda t: t["ev"][0]["a"] == "call" and any(t["ev"][0]["m"]) and cap(t) < t["cfg"]["H"] * t["cfg"]["W"])
    if t:
        c = clone(t, "a mask filled completely", "D_UpperRatio")
        i = [j for j, m in enumerate(c["ev"][0]["m"]) if m][0]
        c["ev"][0]["m"][i] = list(range(t["cfg"]["H"] * t["cfg"]["W"]))
    t = first("dino", lambda t: t["ev"][0]["a"] == "call")
    if t:
        c = clone(t, "one mask dropped", "D_OnePerViewSample")
        c["ev"][0]["m"] = c["ev"][0]["m"][1:]
        c = clone(t, "batch data changed", "PassThrough")
        c["ev"][0]["bout"] = c["ev"][0]["bin"] + 1
        c = clone(t, "dtype not bool", "D_Boolean")
        c["ev"][0]["isbool"] = False

    def in_domain(t):
        c = t["cfg"]
        return c["encMinArea"] > c["P"] * c["predMaxArea"] + c["minKeep"]

    def all_calls(t):
        return all(e["a"] == "call" for e in t["ev"])

    t = first("ijepa", lambda t: all_calls(t) and in_domain(t) and len(t["ev"][0]["enc"][0]) >= 1)
    if t:
        c = clone(t, "a predictor patch put into the sample's encoder mask", "J_Disjoint")
        e = c["ev"][0]
        e["enc"][0] = sorted(set(e["enc"][0][:-1]) | {e["pred"][0][0]})
        if len(e["enc"][0]) < len(e["enc"][-1]):
            e["enc"][0] = sorted(set(e["enc"][0]) | {e["pred"][0][-1]})
    t = first("ijepa", lambda t: all_calls(t) and len(t["ev"][0]["enc"][0]) >= 2)
    if t:
        c = clone(t, "two encoder indices swapped", "J_SortedDupFree")
        row = c["ev"][0]["enc"][0]
        row[0], row[1] = row[1], row[0]
        c = clone(t, "encoder index out of range", "J_InRange")
        c["ev"][0]["enc"][0][-1] = t["cfg"]["H"] * t["cfg"]["W"]
    t = first("ijepa", lambda t: all_calls(t) and len(t["ev"][0]["pred"][0]) >= 3)
    if t:
        # first and last patch stay, so the spanned rectangle is the same but one of its patches is missing
        c = clone(t, "predictor rectangle with a hole", "J_PredRect")
        c["ev"][0]["pred"][0] = c["ev"][0]["pred"][0][:1] + c["ev"][0]["pred"][0][2:]
    t = first("ijepa", lambda t: all_calls(t) and in_domain(t) and len(t["ev"][0]["enc"]) >= 2 and len(t["ev"][0]["enc"][0]) >= 2)
    if t:
        c = clone(t, "one encoder mask shorter", "J_EncCommonLen")
        c["ev"][0]["enc"][0] = c["ev"][0]["enc"][0][:-1]
    t = first("ijepa", lambda t: all_calls(t) and len({(e["step"]) for e in t["ev"]}) < len(t["ev"]))
    if t:
        c = clone(t, "encoder block size of a repeated step changed", "J_StepSizes")
        seen = {}
        for e in c["ev"]:
            if e["step"] in seen:
                e["esz"] = [e["esz"][0] + 1, e["esz"][1]]
                break
            seen[e["step"]] = 1
    t = first("ijepa", lambda t: all_calls(t))
    if t:
        c = clone(t, "encoder rows of another layout (one row dropped)", "J_Layout")
        c["ev"][0]["enc"] = c["ev"][0]["enc"][1:]
        c["ev"][0]["wit"] = c["ev"][0]["wit"][1:]
        c = clone(t, "call raised", "NoError")
        c["ev"][0] = dict(a="exc", type="TypeError", inst=0, step=0, B=1)
    return out


# ---------------------------------------------------------------- model checking
MC_QUICK = [
    ("MasksDinoProps", "MasksDinoProps_batch_quick.cfg", "DINO batch level (several masks, shuffle), grids <= 4 patches"),
    ("MasksDinoProps", "MasksDinoProps_single_quick.cfg", "DINO one mask, grids <= 3x3, every block choice"),
    ("MasksIjepaProps", "MasksIjepaProps_batch_quick.cfg", "I-JEPA B <= 2, E <= 2, two calls / instances, grids <= 6 patches"),
    ("MasksIjepaProps", "MasksIjepaProps_single_quick.cfg", "I-JEPA B = 1, grids <= 3x3, E <= 2, one call"),
]
MC_THOROUGH = [
    ("MasksDinoProps", "MasksDinoProps_batch_thorough.cfg", "DINO batch level (several masks, shuffle), grids <= 6 patches"),
    ("MasksDinoProps", "MasksDinoProps_single_thorough.cfg", "DINO one mask, grids <= 9 patches (3x3, 2x4, 4x2, ...), 10 attempts, ratios over quarters, every block choice"),
    ("MasksIjepaProps", "MasksIjepaProps_batch_thorough.cfg", "I-JEPA B <= 2, E <= 2, grids <= 3x3, one call"),
    ("MasksIjepaProps", "MasksIjepaProps_single_thorough.cfg", "I-JEPA B = 1, grids <= 4x4, E <= 2, P <= 2, one call"),
    ("MasksIjepaProps", "MasksIjepaProps_steps_thorough.cfg", "I-JEPA three calls over several instances, grids <= 6 patches"),
]
MC_MUTANTS = [
    ("MasksDinoProps", "MasksDinoProps_mut_noguard.cfg", {"C17_D_UpperRatioAlways", "C17_D_UpperRatio", "Accounting"}),
    ("MasksDinoProps", "MasksDinoProps_mut_ceil.cfg", {"C17_D_Budget", "C17_D_BudgetAlways"}),
    ("MasksIjepaProps", "MasksIjepaProps_mut_relaxearly.cfg", {"C17_J_Disjoint", "C17_NoRelaxInDomain"}),
]
DINO_ACTIONS = ["Configure", "PStartMask", "PEnterBlock", "PFinishReached", "PFinishGaveUp", "PTryOutOfBounds",
                "PTryFullyMasked", "PTryOverBudget", "PTryPlace", "PPad", "PShuffle", "ProbeFullBudget", "ProbeAtCap",
                "ProbeEmptyGenerated"]
IJEPA_ACTIONS = ["Configure", "PNewInstance", "PBeginCall", "PSamplePred", "PEncReject", "PEncAccept", "PCollate",
                 "ProbeInDomain", "ProbeRelaxed", "ProbeOverlap", "ProbeCut", "ProbeSeedReused"]


def model_check(v, tier, workers):
    runs = MC_QUICK if tier == "quick" else MC_THOROUGH

    def one(job):
        mod, cfg, label = job
        return job, tlc.run_tlc(mod, cfg, name="C17mc" + cfg.split(".")[0][-12:], workers=workers, coverage=True,
                                timeout=3000)

    def mut(job):
        mod, cfg, expect = job
        return job, tlc.run_tlc(mod, cfg, name="C17mut" + cfg.split(".")[0][-10:], workers=2, timeout=1200)

    with ThreadPoolExecutor(max_workers=4) as ex:
        futs = [ex.submit(one, j) for j in runs] + [ex.submit(mut, j) for j in MC_MUTANTS]
        results = [f.result() for f in futs]
    taken = {"MasksDinoProps": {}, "MasksIjepaProps": {}}
    for job, res in results[:len(runs)]:
        mod, cfg, label = job
        v.add_tlc(res, f"{mod} / {cfg}: {label}")
        for nm in res.violated:
            v.violation(f"model:{cfg}:{nm}", f"design model {mod} ({cfg}) violates {nm}", dict(cex=str(res.cex)[:6000]))
        for act, (d, t) in res.coverage.items():
            taken[mod][act] = taken[mod].get(act, 0) + t
    for mod, acts in (("MasksDinoProps", DINO_ACTIONS), ("MasksIjepaProps", IJEPA_ACTIONS)):
        for act in acts:
            if taken[mod].get(act, 0) == 0:
                raise tlc.TLCError(f"vacuity: action / probe {act} of {mod} never taken in the {tier} configurations")
    ctl = []
    for job, res in results[len(runs):]:
        mod, cfg, expect = job
        hit = sorted(set(res.violated) & expect)
        if not hit:
            raise tlc.TLCError(f"negative control failed: mutated model {cfg} violates {res.violated}, expected one of "
                               f"{sorted(expect)}")
        ctl.append(dict(cfg=cfg, violated=hit))
    v.coverage["mutated_models_rejected"] = ctl


# ---------------------------------------------------------------- run
def nontrivial(t):
    """dino: a budget >= 1 and at least one non-empty mask observed; ijepa: >= 2 calls and a step seen twice or a
    batch of >= 2 samples"""
    calls = [e for e in t["ev"] if e["a"] == "call"]
    if not calls:
        return False
    if t["kind"] == "dino":
        c = t["cfg"]
        return any((e["B"] * c["V"] * c["p"][0]) // c["p"][1] >= 1 and any(e["m"]) for e in calls)
    steps = [e["step"] for e in calls]
    return len(calls) >= 2 and (len(set(steps)) < len(steps) or any(e["B"] >= 2 for e in calls))


def run(prop, tier, seed):
    core.use_repo()
    v = core.Verdict(prop, tier, seed)
    quick = tier == "quick"
    r = random.Random(seed * 1009 + 17)

    # ---- case generation (seeded)
    dg = list(dino_small_grid())
    jg = list(ijepa_small_grid(4 if quick else 5))
    r.shuffle(dg)
    r.shuffle(jg)
    n_dg, n_jg, n_dr, n_jr = (800, 1000, 200, 250) if quick else (len(dg), len(jg), 3000, 3500)
    specs = []
    for i, c in enumerate(dg[:n_dg]):
        c = finish_dino(c, r, 4)
        c["blocks"] = i % 4 == 0
        specs.append(("dino", c))
    for c in jg[:n_jg]:
        specs.append(("ijepa", finish_ijepa(c, r, 3, 3)))
    for i in range(n_dr):
        c = dino_random(r)
        c["blocks"] = i % 4 == 0
        specs.append(("dino", c))
    for _ in range(n_jr):
        specs.append(("ijepa", ijepa_random(r)))

    # ---- (M) runs in the background while the real code is recorded
    procs = 6 if quick else 10
    pool = make_pool(procs)
    with ThreadPoolExecutor(max_workers=1) as bg:
        mc = bg.submit(model_check, v, tier, 4 if quick else 8)
        t0 = time.time()
        try:
            traces = record_all(pool, specs, procs)
        finally:
            pool.terminate()
        t_rec = time.time() - t0
        t0 = time.time()
        for i, t in enumerate(traces, start=1):
            t["id"] = i
        verdict_traces = [t for t in traces if t["kind"] != "dinoblk"]
        acc, rej, st = tracecheck.validate("MasksTrace", "MasksTrace.cfg", traces, prop + "tv", jobs=6 if quick else 10,
                                           weight=lambda t: sum(len(str(e)) for e in t["ev"]))
        t_val = time.time() - t0
        mc.result()
    v.coverage["validate_wall_s"] = round(t_val, 1)
    v.coverage["states"] += st["states"]
    v.coverage["transitions"] += st["transitions"]
    v.coverage["traces_validated_against_impl"] = len(verdict_traces)
    v.coverage["evaluations"] = sum(1 for t in verdict_traces for e in t["ev"])
    v.coverage["record_wall_s"] = round(t_rec, 1)

    # ---- verdicts
    dev = []
    for t in traces:
        if t["id"] not in rej:
            continue
        pos, clauses = rej[t["id"]]
        e = t["ev"][pos - 1] if 0 < pos <= len(t["ev"]) else None
        if t["kind"] == "dinoblk":
            dev.append(dict(key=t["key"], event=pos, call=e))
            continue
        brief = {k: e[k] for k in e if k not in ("enc", "pred", "m", "wit")} if e else None
        v.violation(t["key"], f"clauses {clauses} fail at call {pos} of the real collator: {brief}",
                    dict(cfg=t["cfg"], failed=clauses, event_number=pos, event=e))
    blk = [t for t in traces if t["kind"] == "dinoblk"]
    v.coverage["mask_block_conformance"] = dict(traces=len(blk), calls=sum(len(t["ev"]) for t in blk),
                                                deviations=dev[:5], deviating=len(dev))
    if dev:
        print(f"NOTE property={prop}: {len(dev)} recorded _mask_block call sequences are not behaviours of the "
              f"descriptive model MasksDino.tla (no normative clause involved)")
        v.notes.append("descriptive-model deviations of _mask_block present; verdict rests on the normative clauses")

    # ---- negative control: corrupted copies of accepted traces must be rejected by the expected clause
    good = [t for t in verdict_traces if t["id"] in acc]
    bad = corruptions(good, r)
    if good and len(bad) < 8:
        raise tlc.TLCError(f"negative control: only {len(bad)} corruptions could be built")
    if bad:
        acc2, rej2, st2 = tracecheck.validate("MasksTrace", "MasksTrace.cfg", bad, prop + "nc", jobs=2)
        v.coverage["states"] += st2["states"]
        v.coverage["transitions"] += st2["transitions"]
        for t in bad:
            if t["id"] not in rej2 or t["expect"] not in rej2[t["id"]][1]:
                raise tlc.TLCError(f"negative control failed: corrupted trace ({t['tag']}) not rejected by {t['expect']}: "
                                   f"{rej2.get(t['id'])}")
        v.coverage["corrupted_traces_rejected"] = [dict(corruption=t["tag"], clause=t["expect"]) for t in bad]

    # ---- evidence
    keys = {t["key"] for t in verdict_traces if nontrivial(t)}
    v.coverage["distinct_nontrivial"] = len(keys)
    nd = sum(1 for t in verdict_traces if t["kind"] == "dino")
    indom = sum(1 for t in verdict_traces if t["kind"] == "ijepa"
                and t["cfg"]["encMinArea"] > t["cfg"]["P"] * t["cfg"]["predMaxArea"] + t["cfg"]["minKeep"])
    overlap = 0
    for t in verdict_traces:
        if t["kind"] == "ijepa":
            for e in t["ev"]:
                if e["a"] == "call" and any(w[2] != (1 << t["cfg"]["P"]) - 1 for w in e["wit"]):
                    overlap += 1
                    break
    v.coverage["breakdown"] = dict(dino_traces=nd, ijepa_traces=len(verdict_traces) - nd, ijepa_in_disjointness_domain=indom,
                                   ijepa_traces_with_relaxed_constraint_observed=overlap,
                                   small_grid_dino=f"{min(n_dg, len(dg))} of {len(dg)}",
                                   small_grid_ijepa=f"{min(n_jg, len(jg))} of {len(jg)}")
    v.coverage["exhaustive"] = False
    v.coverage["rule"] = (
        "one case = one configuration of a real collator with its sequence of calls (dino: 1-3 calls with their batch "
        "sizes; ijepa: 1-3 collator instances x 1-6 steps), every call judged by all clauses; cases = seeded sample "
        "(thorough: all) of the exhaustive small grid (dino: grids 1..4 x 1..4, views 1-2, 6 probabilities, 15 ratio "
        "ranges, min_num_patches 1/4; ijepa: grids 2..4 (thorough 2..5), every predictor block size, every encoder "
        "block size, P 1-2, E 1-2, tries 1-2, min_keep inside and outside the disjointness domain) + seeded random "
        "configurations up to 16x16; non-trivial = dino: a call with budget >= 1 and a non-empty mask, ijepa: >= 2 calls "
        "with a repeated step or a batch of >= 2 samples; distinct by full configuration key (incl. seed)")
    smp = [t for t in verdict_traces if t["kind"] == "dino" and nontrivial(t)][:1] \
        + [t for t in verdict_traces if t["kind"] == "ijepa" and nontrivial(t)][:2] + blk[:1]
    for t in smp:
        v.sample(dict(kind=t["kind"], cfg=t["cfg"], ev=t["ev"][:2]))
    v.assumptions += [
        "rows of ctx['encoder_masks'] / ctx['predictor_masks'] are mask-major: row m*B + b is mask m of sample b (the "
        "layout the repository's unit test reads)",
        "mask_prob and the mask ratios are given as fractions num/den (den <= 100); floor() is exact integer arithmetic "
        "on the fractions",
        "I-JEPA general domain = every block the configured scales can produce has height and width >= 1 and the "
        "smallest encoder block has more than min_keep patches (otherwise no mask can ever keep more than min_keep); "
        "decided by a harness-side bound over the size-sampling variable; the disjointness domain uses the exact "
        "smallest encoder block area and an upper bound of the largest predictor block area",
        "the encoder block size of a call is not directly observable: the recorder proposes a size and per-row "
        "positions, TLC verifies the proposal (J_StepSizes_EncBlock) and its equality for equal steps (J_StepSizes)",
        "batch pass-through is decided by SHA-256 equality classes of the returned batch data and default_collate of "
        "the same samples",
        "non-termination is observed as 20 s of process CPU time per call",
        "model checking: float draws of the DINO block sampler are over-approximated by all integer block sizes",
    ]
    return v.finish()
