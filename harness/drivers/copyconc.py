"""X20 (extra): CONCURRENT invocations of copy_folder_from_global_to_local / copy_imagefolder_from_global_to_local
on one destination.

(M) specs/CopyConc.tla is the marker protocol of Copy.tla (C20) run by several processes, one action per file-system
    operation and per decision read.  TLC decides, clause by clause, what the protocol of the current tree (Proto v1)
    guarantees under concurrency: one configuration with the clauses that HOLD (must pass), one configuration per
    clause that is EXPECTED TO FAIL (must fail; its counterexample is the documented limitation), and the same
    clauses under the assumption that callers serialise (must all pass).
(R) every model counterexample is replayed on the REAL functions by a deterministic two-process scheduler: two forked
    children run the real copy function on the same destination, each stops before every file-system operation
    (harness/kdverif/fsgate.py) and waits for the parent's "go".  The real run must end in the same finding
    (TLC judges the recorded trace) - otherwise model and code disagree (VIOLATION).
(T) the scheduler also enumerates the interleavings of small scenarios (stateless DFS over scheduler choices with
    replay from scratch, pruned at already visited (disk, per-process history) states; optionally one process
    death), preemption-bounded schedules and seeded random schedules of bigger ones.  After every step the disk is
    projected to the abstract state of the specification; TLC validates each recorded schedule against
    CopyConcTrace.tla: Obs = normative clauses on the observed states (the verdict: clauses the model says hold must
    hold; clauses the model says fail are counted as FINDING when they fail), Desc = conformance of every recorded
    operation to the actions of CopyConc.tla (a NOTE).
"""
import hashlib
import json
import os
import random
import re
import shutil
import sys
import time
from concurrent.futures import ThreadPoolExecutor

from kdverif import core, tlc, fsgate

PROTO = os.environ.get("KDVERIF_COPY_PROTO", "v1")    # which protocol of CopyConc.tla the tree under test implements
START, END = "autocopy_start.txt", "autocopy_end.txt"
TMP_SUFFIX = ".autocopy_tmp"
JUNK = "my_notes.txt"
CONTENT = {"a": b"A" * 37 + b"\n" + bytes(range(256)) * 3, "b": b"B" * 1501}

LAYOUTS = {
    "T1": dict(files={"a": "a.txt"}, dirs={}, dirof={"a": "."}),
    "T2": dict(files={"a": "a.txt", "b": "s/b.txt"}, dirs={"s": "s"}, dirof={"a": ".", "b": "s"}),
    "L2": dict(files={"a": "c/a.txt", "b": "s/b.txt"}, dirs={"c": "c", "s": "s"}, dirof={"a": "c", "b": "s"}),
}
INIT_KINDS = ("absent", "staletmp", "incomplete", "complete", "user", "userempty")


# ---------------------------------------------------------------- the copy programs of the model (per layout/format)
def program(layout, fmt):
    """the consequential file-system steps of the copy phase, in the order the real code performs them when directory
    listings are sorted by name (the children sort them): what Progs[fmt] of the specification says"""
    lay = LAYOUTS[layout]
    steps = []
    by_dir = {}
    for f in sorted(lay["files"]):
        by_dir.setdefault(lay["dirof"][f], []).append(f)
    # entries of the source root sorted by NAME: root files and directories interleave by their names
    entries = sorted([(lay["files"][f], "file", f) for f in by_dir.get(".", [])] +
                     [(lay["dirs"][x], "dir", x) for x in lay["dirs"]])
    if fmt == "raw":
        for _, kind, x in entries:
            if kind == "file":
                steps += [("create", x), ("fill", x), ("touch", x)]
            else:
                steps.append(("mksub", x))
                for f in by_dir.get(x, []):
                    steps += [("create", f), ("fill", f), ("touch", f)]
                steps.append(("touchsub", x))
    else:
        # zip members / zip archives in file order; zipfile: "if not exists(upperdirs): makedirs(upperdirs)"
        made = set()
        for f in sorted(lay["files"]):
            x = lay["dirof"][f]
            if x != ".":
                steps += [("chksub", x), ("mksubz", x)]
            steps += [("create", f), ("fill", f)]
    return steps


def wipe_order(layout):
    lay = LAYOUTS[layout]
    names = [(START, "start"), (END, "end"), (JUNK, "junk")]
    names += [(rp, f) for f, rp in lay["files"].items() if lay["dirof"][f] == "."]
    names += [(rp, x) for x, rp in lay["dirs"].items()]
    return [n for _, n in sorted(names)]


def tla_set(xs):
    return "{" + ", ".join(f'"{x}"' for x in sorted(xs)) + "}"


def tla_seq(xs):
    return "<<" + ", ".join(f'"{x}"' for x in xs) + ">>"


def layout_constants(layout):
    lay = LAYOUTS[layout]
    dirof = " @@ ".join(f'"{f}" :> "{x}"' for f, x in sorted(lay["dirof"].items()))
    progs = []
    for fmt in ("raw", "zip", "zips"):
        st = ", ".join(f'[k |-> "{k}", x |-> "{x}"]' for k, x in program(layout, fmt))
        progs.append(f'{fmt} |-> <<{st}>>')
    return dict(Files=tla_set(lay["files"]), Dirs=tla_set(lay["dirs"]), DirOf=f"({dirof})",
                Progs="[" + ", ".join(progs) + "]", WipeOrder=tla_seq(wipe_order(layout)),
                FileOrder=tla_seq(sorted(lay["files"])))


# ---------------------------------------------------------------- environment: source, destination, projection
class Env:
    """one scenario on disk: <root>/global (source), <root>/localroot/local (destination)"""

    def __init__(self, scn, root):
        self.scn, self.root = scn, root
        self.lay = LAYOUTS[scn["layout"]]
        self.g = os.path.join(root, "global")
        self.localroot = os.path.join(root, "localroot")
        self.local = os.path.join(self.localroot, "local")
        self.dst = self.local
        self.tmp = self.dst + TMP_SUFFIX
        self.build_source()
        self.call = self.make_call()
        self.recover_cache = {}

    def build_source(self):
        import zipfile
        scn, lay, src = self.scn, self.lay, self.g
        if scn["fmt"] == "raw":
            for f, rp in lay["files"].items():
                p = os.path.join(src, rp)
                os.makedirs(os.path.dirname(p), exist_ok=True)
                with open(p, "wb") as fh:
                    fh.write(CONTENT[f])
        elif scn["fmt"] == "zip":
            os.makedirs(os.path.dirname(src), exist_ok=True)
            with zipfile.ZipFile(src + ".zip", "w") as z:
                for f, rp in sorted(lay["files"].items()):
                    z.writestr(rp, CONTENT[f])
        else:
            os.makedirs(src, exist_ok=True)
            if scn["func"] == "imagefolder":
                # class-wise zips: <class>.zip is extracted into dst/<class>/
                for f, rp in sorted(lay["files"].items()):
                    cls, name = rp.split("/")
                    with zipfile.ZipFile(os.path.join(src, cls + ".zip"), "w") as z:
                        z.writestr(name, CONTENT[f])
            else:
                for i, (f, rp) in enumerate(sorted(lay["files"].items())):
                    with zipfile.ZipFile(os.path.join(src, f"part{i}.zip"), "w") as z:
                        z.writestr(rp, CONTENT[f])

    def reset(self):
        shutil.rmtree(self.localroot, ignore_errors=True)
        os.makedirs(self.localroot)
        kind, lay, dst = self.scn["init"], self.lay, self.dst
        if kind == "staletmp":
            os.makedirs(self.tmp)
            with open(os.path.join(self.tmp, START), "w") as f:
                f.write("stale")
        elif kind in ("incomplete", "complete"):
            os.makedirs(dst)
            with open(os.path.join(dst, START), "w") as f:
                f.write("started")
            for x, rp in lay["dirs"].items():
                os.makedirs(os.path.join(dst, rp))
            for f_, rp in lay["files"].items():
                with open(os.path.join(dst, rp), "wb") as f:
                    if kind == "incomplete" and lay["dirof"][f_] == ".":
                        f.write(b"half")
                    else:
                        f.write(CONTENT[f_])
            if kind == "complete":
                with open(os.path.join(dst, END), "w") as f:
                    f.write("done")
            else:
                with open(os.path.join(dst, JUNK), "w") as f:     # a stale foreign file of the interrupted attempt
                    f.write("stale")
        elif kind == "user":
            os.makedirs(dst)
            with open(os.path.join(dst, JUNK), "w") as f:
                f.write("user data")
            for f_, rp in lay["files"].items():
                if lay["dirof"][f_] == ".":
                    with open(os.path.join(dst, rp), "wb") as f:
                        f.write(b"user version")
        elif kind == "userempty":
            os.makedirs(dst)

    def make_call(self):
        scn, g, local = self.scn, self.g, self.local

        def call():
            if scn["func"] == "folder":
                from kappadata.copying.folder import copy_folder_from_global_to_local as fn
            else:
                from kappadata.copying.image_folder import copy_imagefolder_from_global_to_local as fn
            r = fn(g, local, relative_path=None, num_workers=0)
            if scn["func"] == "folder":
                return dict(copied=bool(r.was_copied), deleted=bool(r.was_deleted), fmt=r.source_format or "none")
            fmt = "zip" if r.was_zip else ("zips" if r.was_zip_classwise else ("raw" if r.was_copied else "none"))
            return dict(copied=bool(r.was_copied), deleted=bool(r.was_deleted), fmt=fmt)

        return call

    # ---- disk -> abstract state of CopyConc.tla
    def project(self):
        lay, dst, tmp = self.lay, self.dst, self.tmp
        d = dict(dst="absent", start=False, end=False, file={f: "none" for f in lay["files"]},
                 sub={x: False for x in lay["dirs"]}, junk=False, tmp="absent")
        if os.path.lexists(tmp):
            ents = os.listdir(tmp) if os.path.isdir(tmp) else ["?"]
            d["tmp"] = "empty" if not ents else ("marked" if ents == [START] else "bad")
        for n in os.listdir(self.localroot):
            if n in (os.path.basename(dst), os.path.basename(tmp)):
                continue
            if PROTO != "v1" and n.startswith(os.path.basename(tmp) + "."):
                continue            # repaired protocols: a private temporary folder (not on the abstract disk)
            d["tmp"] = "bad"        # anything else next to the destination
        if not os.path.isdir(dst):
            if os.path.lexists(dst):
                d["dst"] = "bad"
            return d
        d["dst"] = "present"
        known = {START, END}
        d["start"] = os.path.isfile(os.path.join(dst, START))
        d["end"] = os.path.isfile(os.path.join(dst, END))
        for f, rp in lay["files"].items():
            p = os.path.join(dst, rp)
            known.add(rp)
            if os.path.isfile(p):
                with open(p, "rb") as fh:
                    d["file"][f] = "full" if fh.read() == CONTENT[f] else "partial"
        for x, rp in lay["dirs"].items():
            known.add(rp)
            d["sub"][x] = os.path.isdir(os.path.join(dst, rp))
        for base, dirs, files in os.walk(dst):
            for n in dirs + files:
                if os.path.relpath(os.path.join(base, n), dst) not in known:
                    d["junk"] = True
        return d

    def fingerprint(self, names=None):
        """names: {pid string: process name} - private temporary folders carry the pid of their owner"""
        h = hashlib.sha1()
        for base, dirs, files in os.walk(self.localroot):
            dirs.sort()
            rel = _depid(os.path.relpath(base, self.localroot), names)
            h.update(b"D" + rel.encode() + b"\0")
            for n in sorted(files):
                h.update(b"F" + n.encode() + b"\0")
                try:
                    with open(os.path.join(base, n), "rb") as fh:
                        h.update(fh.read())
                except OSError:
                    h.update(b"?")
                h.update(b"\0")
        return h.hexdigest()[:16]

    # ---- gate request -> abstract operation
    def classify(self, kind, p1, p2=""):
        lay, dst, tmp = self.lay, self.dst, self.tmp
        op = dict(a="op", op=kind, t="other", n="")
        if p1.endswith(" (deleted)") or "(deleted)/" in p1:
            op["t"] = "gone"
            return op
        if kind == "rename":
            is_tmp = (p1 == tmp) or (PROTO != "v1" and p1.startswith(tmp + ".") and os.sep not in p1[len(tmp) + 1:])
            op["t"] = "tmp" if (is_tmp and p2 == dst) else "other"
            return op
        if kind in ("flock", "funlock"):
            op["t"] = "start" if p1 == os.path.join(dst, START) else "other"
            return op
        if kind == "sleep":
            op["t"] = ""
            return op
        if PROTO != "v1" and (p1.startswith(tmp + ".")):
            # private temporary folder <dst>.autocopy_tmp.<pid>
            rest = p1[len(tmp) + 1:]
            op["t"] = "tmp" if os.sep not in rest else ("tmpstart" if rest.split(os.sep, 1)[1] == START else "other")
            return op
        if p1 == dst:
            op["t"] = "dst"
        elif p1 == tmp:
            op["t"] = "tmp"
        elif p1 == self.localroot or self.localroot.startswith(p1 + os.sep):
            op["t"] = "parent"
        elif p1.startswith(tmp + os.sep):
            op["t"] = "tmpstart" if os.path.relpath(p1, tmp) == START else "other"
        elif p1.startswith(dst + os.sep):
            rel = os.path.relpath(p1, dst)
            if rel == START:
                op["t"] = "start"
            elif rel == END:
                op["t"] = "end"
            else:
                op["t"] = "junk"
                for f, rp in lay["files"].items():
                    if rel == rp:
                        op["t"], op["n"] = "file", f
                for x, rp in lay["dirs"].items():
                    if rel == rp:
                        op["t"], op["n"] = "sub", x
        return op


def _depid(rel, names):
    if names:
        m = re.search(re.escape(TMP_SUFFIX) + r"\.(\d+)", rel)
        if m and m.group(1) in names:
            rel = rel.replace(m.group(0), TMP_SUFFIX + "." + names[m.group(1)])
    return rel


def read_result(kind, path):
    if kind == "stat":
        return (os.path.lexists(path), os.path.isdir(path))
    if kind == "list":
        try:
            return tuple(sorted(os.listdir(path)))
        except OSError:
            return None
    if kind == "flock":
        return lock_is_free(path)
    return None


def lock_is_free(path):
    import fcntl
    try:
        with open(path, "r") as f:
            try:
                fcntl.flock(f, fcntl.LOCK_EX | fcntl.LOCK_NB)
            except BlockingIOError:
                return False
            fcntl.flock(f, fcntl.LOCK_UN)
            return True
    except OSError:
        return None


NORES = dict(copied=False, deleted=False, fmt="none")


def ev(a, p, disk, **kw):
    e = dict(a=a, p=p, op="", t="", n="", res=NORES, type="", had=False, gone=False, disk=disk)
    e.update(kw)
    return e


# ---------------------------------------------------------------- the scheduler
class Execution:
    """one schedule of `nprocs` real invocations on env; choices = list of (process index, "g" | "k")"""

    def __init__(self, env, nprocs=2, deadline=60.0):
        self.env, self.n = env, nprocs
        env.reset()
        self.names = [f"p{i + 1}" for i in range(nprocs)]
        self.procs = []
        for i in range(nprocs):
            c = fsgate.Child(env.call, env.localroot, sort_key=_ident, deadline=deadline)
            c.wait()
            self.procs.append(c)
        self.pidnames = {str(c.pid): f"P{i}" for i, c in enumerate(self.procs) if c.pid is not None}
        self.views = [[] for _ in range(nprocs)]     # per process: (kind, path, read result) of every performed gate
        self.spins = [0] * nprocs       # poll cycles of a waiting process that found nothing new
        self.slept = [None] * nprocs    # the view entry before the last sleep (a poll loop repeats it)
        self.events = []
        self.choices = []
        self.crashes = 0
        self.ended = [False] * nprocs
        for i, c in enumerate(self.procs):
            self._finish_if_done(i)     # a call that returns without any gate

    def close(self):
        for c in self.procs:
            c.close()

    def alive(self):
        return [i for i, c in enumerate(self.procs) if c.pending is not None]

    def sleeping(self, i):
        c = self.procs[i]
        return c.pending is not None and c.pending[1] == "sleep"

    def enabled(self, maxcrash):
        """a process that waits in a poll loop (it is blocked at a `sleep`) is scheduled only when nobody else can
        run: then it looks again.  If everybody alive waits and looking again changed nothing, the schedule hangs:
        the waiting processes are ended with the outcome `Diverge`."""
        alive = self.alive()
        awake = [i for i in alive if not self.sleeping(i)]
        if not awake and alive:
            if all(self.spins[i] >= 2 for i in alive):
                for i in alive:
                    c = self.procs[i]
                    c.pending = None
                    c.outcome = ("diverge",)
                    c.close()
                    self._finish_if_done(i)
                return []
            awake = alive
        en = [(i, "g") for i in awake]
        if self.crashes < maxcrash:
            en += [(i, "k") for i in awake]
        return en

    def key(self):
        pv = []
        for i, c in enumerate(self.procs):
            me = {k: "me" for k in self.pidnames}
            pend = (c.pending[1], _depid(c.pending[2], me), _depid(c.pending[3], me)) if c.pending is not None else None
            out = None
            if c.outcome is not None:
                out = (c.outcome[0], json.dumps(c.outcome[1], sort_keys=True) if c.outcome[0] == "ret" else
                       (c.outcome[1] if c.outcome[0] == "exc" else ""))
            pv.append((tuple(self.views[i]), pend, out))
        # the invocations are identical calls: states that differ only by the names of the processes are one state
        return (self.env.fingerprint(self.pidnames), tuple(sorted(pv, key=repr)), self.crashes)

    def _finish_if_done(self, i):
        c = self.procs[i]
        if c.pending is not None or self.ended[i]:
            return
        self.ended[i] = True
        disk = self.env.project()
        o = c.outcome
        if o[0] == "ret":
            self.events.append(ev("ret", self.names[i], disk, res=o[1]))
        elif o[0] == "exc":
            self.events.append(ev("exc", self.names[i], disk, type=o[1], text=o[3][-600:]))
        elif o[0] == "crash":
            self.events.append(ev("crash", self.names[i], disk))
        elif o[0] == "diverge":
            self.events.append(ev("exc", self.names[i], disk, type="Diverge"))
        else:
            self.events.append(ev("exc", self.names[i], disk, type="Died", text=str(o)))

    def step(self, choice):
        i, what = choice
        c = self.procs[i]
        assert c.pending is not None, (choice, self.choices)
        self.choices.append(choice)
        if what == "k":
            self.crashes += 1
            c.kill()
            self._finish_if_done(i)
            return
        _, kind, p1, p2 = c.pending
        c.at = None
        pre = read_result(kind, p1) if kind == "flock" else None    # (was the lock free when it was asked for)
        had = os.path.lexists(p1)      # rename / remove / rmdir: did the operation take its source away?
        c.go()
        gone = not os.path.lexists(p1)
        p1 = c.at or p1       # descriptor-relative operations: the path of the object at the moment of the operation
        op = self.env.classify(kind, p1, p2)
        if kind == "flock":
            op["n"] = "ok" if pre else "busy"
        if kind == "sleep":
            # waiting: the process will repeat what it did before the sleep; its history does not grow by polling
            self.slept[i] = self.views[i][-1] if self.views[i] else None
        else:
            # (reads do not change the disk and nobody else ran: the result computed now is the one the process saw)
            entry = (kind, _depid(os.path.relpath(p1, self.env.localroot), {str(k): "me" for k in self.pidnames})
                     if p1.startswith(self.env.localroot) else p1,
                     pre if kind == "flock" else read_result(kind, p1))
            if self.slept[i] is not None and entry == self.slept[i]:
                self.spins[i] += 1         # looked again, nothing new
            else:
                self.views[i].append(entry)
                self.spins[i] = 0
            self.slept[i] = None
            if kind not in ("stat", "list", "flock"):
                self.spins = [0] * self.n  # the disk changed: everybody who waits has a reason to look again
        self.events.append(ev("op", self.names[i], self.env.project(), op=op["op"], t=op["t"], n=op["n"], had=had,
                              gone=gone))
        self._finish_if_done(i)

    def pending_op(self, i):
        c = self.procs[i]
        if c.pending is None:
            return None
        return self.env.classify(c.pending[1], c.pending[2], c.pending[3])

    def recover(self):
        """the next job: one more invocation (process name p1), alone, after everything has ended"""
        env = self.env
        fp = env.fingerprint()
        if fp not in env.recover_cache:
            evs = [ev("reinvoke", "p1", env.project())]
            c = fsgate.Child(env.call, env.localroot, sort_key=_ident)
            c.wait()
            while c.pending is not None:
                _, kind, p1, p2 = c.pending
                c.at = None
                had = os.path.lexists(p1)
                c.go()
                gone = not os.path.lexists(p1)
                op = env.classify(kind, c.at or p1, p2)
                evs.append(ev("op", "p1", env.project(), op=op["op"], t=op["t"], n=op["n"], had=had, gone=gone))
            disk = env.project()
            o = c.outcome
            if o[0] == "ret":
                evs.append(ev("ret", "p1", disk, res=o[1]))
            elif o[0] == "exc":
                evs.append(ev("exc", "p1", disk, type=o[1], text=o[3][-600:]))
            else:
                evs.append(ev("exc", "p1", disk, type="Diverge" if o[0] == "diverge" else "Died"))
            c.close()
            env.recover_cache[fp] = evs
        self.events += env.recover_cache[fp]


def _ident(name):
    return name


def run_schedule(env, prefix, maxcrash=0, policy="same", rnd=None, visited=None, stack=None, recover=True, nprocs=2,
                 pbound=None):
    """execute `prefix`, then continue with the default policy until everything has ended.
    visited/stack given: DFS bookkeeping - at every state reached after the prefix, stop if it was visited before,
    else push every alternative choice.  Returns the Execution (events, choices, `cut`)."""
    ex = Execution(env, nprocs)
    ex.cut = False
    try:
        for ch in prefix:
            ex.step(tuple(ch))
        last = prefix[-1][0] if prefix else 0
        npre = _preemptions(prefix)
        while True:
            en = ex.enabled(maxcrash)
            if not en:
                break
            if visited is not None:
                k = ex.key()
                if k in visited:
                    ex.cut = True
                    break
                visited.add(k)
            if policy == "random":
                ch = rnd.choice(en)
            else:
                go = [c for c in en if c[1] == "g"]
                same = [c for c in go if c[0] == last]
                ch = same[0] if same else go[0]
            if stack is not None:
                for alt in en:
                    if alt != ch:
                        if pbound is not None and _preemptions(ex.choices + [alt]) > pbound:
                            continue
                        stack.append(ex.choices + [alt])
            ex.step(ch)
            last = ch[0]
        if not ex.cut and recover:
            ex.recover()
    finally:
        ex.close()
    return ex


def _preemptions(choices):
    """number of context switches away from a process that could have continued (approximation: every switch)"""
    n = 0
    for a, b in zip(choices, choices[1:]):
        if a[0] != b[0] and a[1] == "g":
            n += 1
    return n


def explore(env, maxcrash=0, prune=True, limit=None, pbound=None, rnd=None):
    """stateless DFS over scheduler choices (replay from scratch), pruned at visited states"""
    visited = set() if prune else None
    stack = [[]]
    runs = []
    while stack:
        prefix = stack.pop()
        ex = run_schedule(env, prefix, maxcrash=maxcrash, visited=visited, stack=stack, pbound=pbound)
        runs.append(ex)
        if limit and len(runs) >= limit:
            return runs, False, len(visited or ())
        if rnd is not None and len(stack) > 1 and limit:
            j = rnd.randrange(len(stack))
            stack[-1], stack[j] = stack[j], stack[-1]
    return runs, True, len(visited or ())


# ---------------------------------------------------------------- TLC: model configurations
HOLD_INV = ["TypeOK", "Truthful", "AllReturnedComplete", "NoLeftovers", "OwnWritesOK"]
HOLD_PROP = ["NoUserDamage", "CompletedKept", "Terminates"]
# clauses EXPECTED TO FAIL for the protocol of the current tree under concurrent invocations (one cfg each)
FAIL_INV = ["NoFalseComplete", "EndMarkerTruth", "StartMarkerKept", "NoRaceError", "QuiescentComplete", "RecoverOK"]
FAIL_PROP = ["RetMoment", "StaysComplete", "NotUsable"]
ALL_INV = HOLD_INV + FAIL_INV + ["QuiescentCompleteCrash"]
ALL_PROP = HOLD_PROP + FAIL_PROP
# per protocol of CopyConc.tla: (clauses claimed to hold under concurrency, clauses expected to fail).
# v1 = the current tree.  v3 = reports/xconc-2.patch (private temporary folder + advisory lock on the start marker).
# v2 = reports/xconc-1.patch (private temporary folder, a lost rename race waits for the end marker): model only.
PROTO_CLAUSES = {
    "v1": (HOLD_INV + HOLD_PROP, FAIL_INV + FAIL_PROP),
    "v2": (HOLD_INV + ["StartMarkerKept"] + ["NoUserDamage", "CompletedKept", "NotUsable"],
           ["NoFalseComplete", "EndMarkerTruth", "NoRaceError", "QuiescentComplete", "RecoverOK", "RetMoment",
            "StaysComplete"]),
    "v3": (ALL_INV + ALL_PROP, []),
}
ACTIONS_V3_ONLY = ["ALostRace", "ATryLock", "ALockChk"]
ACTIONS_V1_ONLY = ["ATmpList", "ARmTmpDir", "ARmGone", "ARaiseErrors"]   # (the last two: only reachable through a race)
ACTIONS_V1 = ["AChkDst", "AChkStart", "AChkEnd", "AListDst", "ARmMarker", "ARmFile", "AEnterSub", "ARmGone", "ASubList",
              "ARmSubFile", "ARmSubDir", "AWipeDone", "AChkTmp", "ATmpList", "ARmTmpDir", "AMkTmp", "AWriteTmpStart",
              "ARename", "AChkSub", "AMkSubZ", "AMkSub", "ACreateFile", "AFillFile", "ATouch", "ATouchSub", "AWriteEnd", "ARaiseErrors",
              "ACrash", "AReinvoke"]


def write_mc_module():
    """specs/CopyConcMC.tla: the constants of every layout (generated from LAYOUTS / program())"""
    out = ["----------------------------- MODULE CopyConcMC -----------------------------",
           "(* constants of the exhaustive runs of CopyConc.tla, generated by harness/drivers/copyconc.py from its      *)",
           "(* layout table: T1 = one file in the root; T2 = a root file and a file in a sub-directory; L2 = two files  *)",
           "(* in two sub-directories.  Progs = the copy phase of each source format as shutil.copytree / zipfile       *)",
           "(* perform it (directory listings sorted by name); every recorded solo run of the real code is checked       *)",
           "(* against it by the Desc validation of CopyConcTrace.tla.                                                  *)",
           "EXTENDS CopyConc", 'P2 == {"p1", "p2"}', 'P3 == {"p1", "p2", "p3"}']
    for layout in sorted(LAYOUTS):
        for k, v in layout_constants(layout).items():
            out.append(f"{layout}{k} == {v}")
    out += ['AllInits == {"absent", "staletmp", "incomplete", "complete", "user", "userempty"}',
            'AutoInits == {"absent", "staletmp", "incomplete", "complete"}',
            "=============================================================================", ""]
    _write_if_changed(os.path.join(tlc.SPECS, "CopyConcMC.tla"), "\n".join(out))
    for layout in sorted(LAYOUTS):
        mod = f"CopyConcTraceMC_{layout}"
        body = [f"---- MODULE {mod} ----", "EXTENDS CopyConcTrace", 'P3 == {"p1", "p2", "p3"}']
        for k, v in layout_constants(layout).items():
            body.append(f"MC{k} == {v}")
        body += ["====", ""]
        _write_if_changed(os.path.join(tlc.SPECS, mod + ".tla"), "\n".join(body))
        for mode in ("obs", "desc"):
            cfg = ["CONSTANTS", "  Procs <- P3", "  Files <- MCFiles", "  Dirs <- MCDirs", "  DirOf <- MCDirOf",
                   "  Progs <- MCProgs", "  WipeOrder <- MCWipeOrder", "  FileOrder <- MCFileOrder",
                   '  Inits = {"absent"}', f'  Proto = "{os.environ.get("KDVERIF_COPY_PROTO", "v1")}"', "  MaxCrashes = 1000", "  MaxRounds = 1000",
                   "  Serial = FALSE", '  SerialFirst = "p1"', "  KeepHist = TRUE"]
            if mode == "obs":
                cfg += ["SPECIFICATION ObsSpec", "CONSTRAINT ObsConstraint", "POSTCONDITION Report"]
            else:
                cfg += ["SPECIFICATION DescSpec", "CONSTRAINT DescCollect", "POSTCONDITION DescReport"]
            cfg += ["CHECK_DEADLOCK FALSE", ""]
            _write_if_changed(os.path.join(tlc.SPECS, f"{mod}_{mode}.cfg"), "\n".join(cfg))


def _write_if_changed(path, text):
    try:
        if open(path).read() == text:
            return
    except OSError:
        pass
    with open(path, "w") as f:
        f.write(text)


def model_cfg(name, layout, clauses, proto="v1", crashes=1, rounds=1, serial=False, hist=False, procs="P2",
              inits="AllInits"):
    lines = ["SPECIFICATION Spec", "CONSTANTS", f"  Procs <- {procs}", f"  Files <- {layout}Files",
             f"  Dirs <- {layout}Dirs", f"  DirOf <- {layout}DirOf", f"  Progs <- {layout}Progs",
             f"  WipeOrder <- {layout}WipeOrder", f"  FileOrder <- {layout}FileOrder", f"  Inits <- {inits}",
             f'  Proto = "{proto}"', f"  MaxCrashes = {crashes}", f"  MaxRounds = {rounds}",
             f"  Serial = {'TRUE' if serial else 'FALSE'}", '  SerialFirst = "p1"',
             f"  KeepHist = {'TRUE' if hist else 'FALSE'}"]
    for c in clauses:
        lines.append(("INVARIANT " if c in ALL_INV else "PROPERTY ") + c)
    lines += ["CHECK_DEADLOCK FALSE", ""]
    fn = f"CopyConcMC_{name}.cfg"
    _write_if_changed(os.path.join(tlc.SPECS, fn), "\n".join(lines))
    return fn


_RE_HIST = re.compile(r'^/\\ hist = <<"(\w+)", "(\w+)">>', re.M)
_RE_INIT = re.compile(r'^/\\ init = "(\w+)"', re.M)
_RE_FMT = re.compile(r'^/\\ fmt = "(\w+)"', re.M)


def parse_cex(stdout):
    """(init kind, format, [(process, action), ...]) of the counterexample TLC printed (hist = last action)"""
    i = stdout.find("Error: The behavior up to this point is:")
    if i < 0:
        i = stdout.find("Error:")
    txt = stdout[i:]
    sched = _RE_HIST.findall(txt)
    init = _RE_INIT.findall(txt)
    fmt = _RE_FMT.findall(txt)
    if not init or not fmt:
        raise tlc.TLCError("cannot parse the counterexample of the model\n" + txt[:2000])
    return init[0], fmt[0], [(p, a[1:] if a.startswith("A") and a[1].isupper() else a) for p, a in sched]


# model action -> the gated operation of the real process that performs it (None: no operation of its own)
ACTION_OP = {
    "ChkDst": ("stat", {"dst"}), "ChkStart": ("stat", {"start"}), "ChkEnd": ("stat", {"end"}),
    "ListDst": ("list", {"dst"}), "RmMarker": ("remove", {"start", "end", "junk", "tmpstart", "gone"}),
    "RmFile": ("remove", {"file"}), "EnterSub": ("stat", {"sub"}), "RmGone": ("remove", {"sub"}),
    "SubList": ("list", {"sub", "gone"}), "RmSubFile": ("remove", {"file"}), "RmSubDir": ("rmdir", {"sub"}),
    "WipeDone": None, "RaiseErrors": None, "ChkTmp": ("stat", {"tmp"}), "TmpList": ("list", {"tmp", "dst", "gone"}),
    "RmTmpDir": ("rmdir", {"tmp"}), "MkTmp": ("mkdir", {"tmp"}), "WriteTmpStart": ("wopen", {"tmpstart"}),
    "Rename": ("rename", {"tmp"}), "ChkSub": ("stat", {"sub"}), "MkSubZ": ("mkdir", {"sub"}),
    "MkSub": ("mkdir", {"sub"}), "CreateFile": ("wopen", {"file"}), "FillFile": ("fill", {"file"}),
    "Touch": ("touch", {"file"}), "TouchSub": ("touch", {"sub"}), "WriteEnd": ("wopen", {"end"}),
}


def is_nop(op):
    """recorded operations the model has no action for"""
    return (op["op"] == "stat") or (op["op"] == "mkdir" and op["t"] in ("dst", "parent")) or \
        (op["op"] == "touch" and op["t"] == "dst")


def replay_model_schedule(env, sched, nprocs=2):
    """drive the real processes along a schedule of model actions; returns (Execution, mismatch or None)"""
    ex = Execution(env, nprocs)
    ex.cut = False
    mismatch = None
    tmpclean = set()
    try:
        for pos, (p, act) in enumerate(sched):
            i = int(p[1:]) - 1
            if act == "Reinvoke":
                break
            if act == "Crash":
                if ex.procs[i].pending is None:
                    mismatch = f"step {pos}: {p} is to be killed but has already ended"
                    break
                ex.step((i, "k"))
                continue
            want = ACTION_OP[act]
            if act == "TmpList":
                tmpclean.add(i)
            if want is None or (act == "EnterSub" and i in tmpclean):
                continue
            while True:
                op = ex.pending_op(i)
                if op is None:
                    mismatch = f"step {pos}: model has {p}:{act} but the real process has ended ({ex.procs[i].outcome[:2]})"
                    break
                if op["op"] == want[0] and op["t"] in want[1]:
                    ex.step((i, "g"))
                    break
                if is_nop(op):
                    ex.step((i, "g"))
                    continue
                mismatch = f"step {pos}: model has {p}:{act}, the real process is about to {op['op']} {op['t']} {op['n']}"
                break
            if mismatch:
                break
        ex.cex_end = len(ex.events)       # the model's counterexample ends here: the clause must have failed by now
        # let whatever is still running finish (lowest process first), then the next job
        while ex.alive():
            ex.step((ex.alive()[0], "g"))
        ex.recover()
        if any(a == "Reinvoke" for _, a in sched):
            ex.cex_end = len(ex.events)   # the counterexample goes on into the next job (which runs alone)
    finally:
        ex.close()
    return ex, mismatch


# ---------------------------------------------------------------- TLC: trace validation
def validate_all(groups, jobs=6, chunk_events=40000):
    """groups: {(layout, mode): traces}.  All chunks of all groups share one pool of `jobs` JVMs (-workers 1 each).
    Returns {(layout, mode): (accepted ids, info, findings, stats)}"""
    os.makedirs(tlc.WORK, exist_ok=True)
    tasks = []
    for (layout, mode), traces in groups.items():
        order = sorted(traces, key=lambda t: -len(t["ev"]))
        total = sum(len(t["ev"]) for t in order)
        n = max(1, min(jobs, (total + chunk_events - 1) // chunk_events))
        for i in range(n):
            ch = order[i::n]
            if ch:
                tasks.append((layout, mode, i, ch))
    tasks.sort(key=lambda x: -sum(len(t["ev"]) for t in x[3]))

    def one(task):
        layout, mode, i, ch = task
        mod = f"CopyConcTraceMC_{layout}"
        cfg = f"{mod}_{mode}.cfg"
        path = os.path.join(tlc.WORK, f"copyconc-{mode}-{layout}-{os.getpid()}-{i}.json")
        with open(path, "w") as f:
            json.dump(dict(traces=ch), f)
        try:
            r = tlc.run_tlc(mod, cfg, name=f"cc{mode}{layout}{i}", workers=1, env=dict(TRACE_FILE=path), timeout=3000)
        finally:
            os.remove(path)
        acc = tlc.tagged(r.prints, "ACCEPTED")
        if len(acc) != 1:
            raise tlc.TLCError(f"{mod}: verdict lines missing\n{r.stdout[-3000:]}")
        extra = {}
        if mode == "obs":
            rej = tlc.tagged(r.prints, "REJECTED")
            fnd = tlc.tagged(r.prints, "FINDINGS")
            if len(rej) != 1 or len(fnd) != 1:
                raise tlc.TLCError(f"{mod}: verdict lines missing\n{r.stdout[-3000:]}")
            info = {x[0]: (x[1], sorted(x[2])) for x in rej[0]}
            for tid_, c, pos in fnd[0]:
                d_ = extra.setdefault(tid_, {})
                d_[c] = min(pos, d_.get(c, pos))      # clause -> first event after which it fails
        else:
            pr = tlc.tagged(r.prints, "PROGRESS")
            if len(pr) != 1:
                raise tlc.TLCError(f"{mod}: progress line missing\n{r.stdout[-3000:]}")
            info = {x[0]: x[1] for x in pr[0]}
        return (layout, mode), set(acc[0]), info, extra, r

    out = {k: (set(), {}, {}, dict(states=0, transitions=0)) for k in groups}
    with ThreadPoolExecutor(max_workers=jobs) as ex:
        for k, a, inf, xt, r in ex.map(one, tasks):
            acc, info, extra, st = out[k]
            acc |= a
            info.update(inf)
            extra.update(xt)
            st["states"] += r.distinct_states
            st["transitions"] += r.states_generated
    return out


def validate(traces, layout, mode, jobs=6):
    return validate_all({(layout, mode): traces}, jobs=jobs)[(layout, mode)]

# ---------------------------------------------------------------- scenarios
def scenarios(tier):
    """(scenario, exploration plan).  plan: mode dfs (pruned stateless DFS, all interleavings up to state equivalence) |
    full (every interleaving, unpruned) | pb (every schedule with at most `pbound` preemptions) | random (n seeded)"""
    quick = tier == "quick"
    S = []

    def add(func, fmt, layout, init, **plan):
        S.append((dict(func=func, fmt=fmt, layout=layout, init=init), plan))

    # every interleaving of two invocations, one-file source
    for fmt in ("raw", "zip"):
        for init in ("absent", "incomplete", "staletmp"):
            add("folder", fmt, "T1", init, mode="dfs")
    for init in ("complete", "user", "userempty"):
        add("folder", "raw", "T1", init, mode="full")
        add("imagefolder", "zip", "T1", init, mode="full")
    # ... with one process death at any gate
    add("folder", "zip", "T1", "absent", mode="dfs", maxcrash=1, limit=(500 if quick else None))
    add("folder", "raw", "T1", "incomplete", mode="dfs", maxcrash=1, limit=(300 if quick else None))
    # two files, sub-directories, the image-folder twin, folder of zips: bounded / random schedules (quick), all (thorough)
    big = [("folder", "raw", "T2", "absent"), ("folder", "raw", "T2", "incomplete"), ("folder", "zip", "T2", "absent"),
           ("folder", "zips", "T2", "staletmp"), ("imagefolder", "zips", "L2", "absent"),
           ("imagefolder", "zips", "L2", "incomplete"), ("imagefolder", "raw", "L2", "absent"),
           ("imagefolder", "zip", "T2", "incomplete")]
    if quick:
        # a capped DFS where wipe and copy of sub-directories race (deferred copytree errors, ENOTEMPTY, upperdirs)
        add("folder", "raw", "T2", "incomplete", mode="dfs", limit=400)
        add("folder", "zip", "T2", "absent", mode="dfs", limit=300)
    for func, fmt, layout, init in big:
        add(func, fmt, layout, init, mode="pb", pbound=1)
        add(func, fmt, layout, init, mode="random", n=(25 if quick else 200), maxcrash=1)
        if not quick:
            add(func, fmt, layout, init, mode="dfs", limit=4000)
    # three invocations at once
    add("folder", "zip", "T1", "absent", mode="random", n=(30 if quick else 300), nprocs=3)
    add("folder", "raw", "T1", "incomplete", mode="random", n=(30 if quick else 300), nprocs=3, maxcrash=1)
    if not quick:
        add("folder", "zip", "T1", "absent", mode="dfs", nprocs=3, limit=4000)
    return S


def sched_str(choices):
    return "".join(f"{i + 1}{'' if w == 'g' else 'k'}" for i, w in choices)


def light_repo():
    """workers: import kappadata.copying.* (and kappadata.utils.logging) from $VERIF_REPO WITHOUT running
    kappadata/__init__.py and kappadata/utils/__init__.py, which import torch - every schedule forks two or three
    children of the worker, and forking a process with torch loaded costs 20x the system time.  The code under
    test (folder.py, image_folder.py, copying_utils.py) is the working tree's, loaded from its files."""
    import types
    if "kappadata" not in sys.modules:
        for name, sub in (("kappadata", ()), ("kappadata.utils", ("utils",))):
            m = types.ModuleType(name)
            m.__path__ = [os.path.join(core.REPO, "kappadata", *sub)]
            sys.modules[name] = m
    import kappadata.copying.folder as f1  # noqa  (imported before the children are forked)
    import kappadata.copying.image_folder as f2  # noqa
    for m in (f1, f2):
        assert os.path.realpath(m.__file__).startswith(os.path.realpath(core.REPO) + os.sep), m.__file__


def explore_scenario(args):
    idx, scn, plan, seed = args
    light_repo()
    root = f"/dev/shm/kdverif-copyconc-{os.getpid()}-{idx}"
    shutil.rmtree(root, ignore_errors=True)
    os.makedirs(root)
    try:
        env = Env(scn, root)
        env.reset()
        disk0 = env.project()
        nprocs = plan.get("nprocs", 2)
        maxcrash = plan.get("maxcrash", 0)
        rnd = random.Random(seed * 1000 + idx)
        runs, complete, nstates = [], True, 0
        if plan["mode"] in ("dfs", "full", "pb"):
            visited = set() if plan["mode"] == "dfs" else None
            stack = [[]]
            while stack:
                prefix = stack.pop()
                ex = run_schedule(env, prefix, maxcrash=maxcrash, visited=visited, stack=stack, nprocs=nprocs,
                                  pbound=plan.get("pbound"))
                runs.append(ex)
                if plan.get("limit") and len(runs) >= plan["limit"]:
                    complete = not stack
                    break
            nstates = len(visited or ())
        else:
            for _ in range(plan["n"]):
                runs.append(run_schedule(env, [], maxcrash=maxcrash, policy="random", rnd=rnd, nprocs=nprocs))
            complete = False
        cfg = dict(scn, disk0=disk0, procs=[f"p{i + 1}" for i in range(nprocs)], mode=plan["mode"])
        traces = [dict(cfg=cfg, ev=ex.events, sched=sched_str(ex.choices), cut=ex.cut) for ex in runs]
        return traces, complete, nstates
    finally:
        shutil.rmtree(root, ignore_errors=True)


def replay_scenario(args):
    idx, scn, clause, sched = args
    light_repo()
    root = f"/dev/shm/kdverif-copyconc-r-{os.getpid()}-{idx}"
    shutil.rmtree(root, ignore_errors=True)
    os.makedirs(root)
    try:
        env = Env(scn, root)
        env.reset()
        disk0 = env.project()
        ex, mismatch = replay_model_schedule(env, sched)
        cfg = dict(scn, disk0=disk0, procs=["p1", "p2"], mode="replay", clause=clause)
        return dict(cfg=cfg, ev=ex.events, sched=sched_str(ex.choices), cut=False, mismatch=mismatch, cex_end=ex.cex_end,
                    model_sched=" ".join(f"{p}:{a}" for p, a in sched))
    finally:
        shutil.rmtree(root, ignore_errors=True)


def worker_main():
    """python copyconc.py --worker : one JSON job per line on stdin, one JSON result per line on stdout"""
    import traceback
    out = os.fdopen(os.dup(1), "w")
    os.dup2(2, 1)     # anything the library prints goes to stderr, the result channel stays clean
    light_repo()
    for line in sys.stdin:
        job = json.loads(line)
        try:
            if job["kind"] == "explore":
                res = explore_scenario(job["args"])
            else:
                a = job["args"]
                res = replay_scenario((a[0], a[1], a[2], [tuple(x) for x in a[3]]))
            msg = dict(ok=True, res=res)
        except BaseException:  # noqa
            msg = dict(ok=False, err=traceback.format_exc()[-3000:])
        out.write(json.dumps(msg) + "\n")
        out.flush()


def run_jobs(jobs, nworkers):
    """jobs: list of (kind, args); light worker processes (no torch), one job at a time each; results in job order"""
    import queue
    import subprocess
    import threading
    q = queue.Queue()
    for i, j in enumerate(jobs):
        q.put((i, j))
    results = [None] * len(jobs)
    errors = []
    env = dict(os.environ, PYTHONPATH=os.pathsep.join([os.path.join(core.VERIF, "harness"),
                                                        os.path.join(core.VERIF, "harness", "drivers")]))

    def feeder():
        p = subprocess.Popen([sys.executable, os.path.abspath(__file__), "--worker"], stdin=subprocess.PIPE,
                             stdout=subprocess.PIPE, env=env, text=True)
        try:
            while True:
                try:
                    i, (kind, args) = q.get_nowait()
                except queue.Empty:
                    return
                p.stdin.write(json.dumps(dict(kind=kind, args=args)) + "\n")
                p.stdin.flush()
                line = p.stdout.readline()
                if not line:
                    errors.append(f"worker died on job {kind} {args[:2]}")
                    return
                msg = json.loads(line)
                if not msg["ok"]:
                    errors.append(msg["err"])
                    return
                results[i] = msg["res"]
        finally:
            try:
                p.stdin.close()
            except OSError:
                pass
            p.wait()

    threads = [threading.Thread(target=feeder) for _ in range(min(nworkers, len(jobs)))]
    for t in threads:
        t.start()
    for t in threads:
        t.join()
    if errors:
        raise tlc.TLCError("scheduler worker failed:\n" + errors[0])
    return results


def trace_key(t):
    c = t["cfg"]
    return f"{c['func']}:{c['fmt']}:{c['layout']}:init={c['init']}:n={len(c['procs'])}:sched={t['sched']}"


def corrupted_controls(traces):
    """negative controls of the binding: accepted real traces with one logged field corrupted must be REJECTED"""
    out = []
    solo = [t for t in traces if t["cfg"]["init"] == "absent" and not t["cut"] and len(t["cfg"]["procs"]) == 2
            and t["ev"] and all(e["a"] != "exc" and e["a"] != "crash" for e in t["ev"])]
    if solo:
        t = json.loads(json.dumps(solo[0]))
        t["base"] = solo[0]
        # the result of the invocation that copied claims it did not
        for e in t["ev"]:
            if e["a"] == "ret" and e["res"]["copied"]:
                e["res"] = dict(e["res"], copied=False, fmt="none")
                break
        t["control"] = "Truthful"
        out.append(t)
        t = json.loads(json.dumps(solo[0]))
        t["base"] = solo[0]
        # a data file vanishes after everybody has returned
        last = t["ev"][-1]
        last["disk"]["file"] = {f: "none" for f in last["disk"]["file"]}
        t["control"] = "AllReturnedComplete"
        out.append(t)
    usr = [t for t in traces if t["cfg"]["init"] == "user" and t["ev"]]
    if usr:
        t = json.loads(json.dumps(usr[0]))
        t["base"] = usr[0]
        t["ev"][-1]["disk"]["junk"] = False     # the user's file is gone
        t["control"] = "NoUserDamage"
        out.append(t)
    done = [t for t in traces if t["cfg"]["init"] == "complete" and t["ev"]]
    if done:
        t = json.loads(json.dumps(done[0]))
        t["base"] = done[0]
        t["ev"][0]["disk"]["end"] = False       # the end marker of a completed copy disappears
        t["control"] = "CompletedKept"
        out.append(t)
    return out


# ---------------------------------------------------------------- the check
def run(prop, tier, seed):
    core.use_repo()
    v = core.Verdict(prop, tier, seed)
    quick = tier == "quick"
    write_mc_module()
    proto = PROTO
    if proto not in ("v1", "v3"):
        raise tlc.TLCError("KDVERIF_COPY_PROTO must be v1 (the current tree) or v3 (tree with reports/xconc-2.patch)")
    hold_clauses, fail_clauses = PROTO_CLAUSES[proto]
    findings = {}

    # ---- (M) what the protocol guarantees under concurrency, clause by clause
    jobs = []
    layouts_m = ["T2"] if quick else ["T1", "T2", "L2"]
    for lay in layouts_m:
        jobs.append(("holds", lay, None, model_cfg(f"{lay}_{proto}_holds", lay, hold_clauses, proto=proto,
                                                   crashes=1, rounds=1)))
        jobs.append(("serial", lay, None, model_cfg(f"{lay}_{proto}_serial", lay, ALL_INV + ALL_PROP, proto=proto,
                                                    crashes=(1 if quick else 2), rounds=1, serial=True)))
    if not quick:
        jobs.append(("holds", "T1x3", None, model_cfg(f"T1_{proto}_holds_3procs", "T1", hold_clauses,
                                                      proto=proto, crashes=1, rounds=1, procs="P3")))
        if proto == "v1":
            # the repair proposals (reports/xconc-1.patch = v2, reports/xconc-2.patch = v3), decided on the model
            for pp in ("v2", "v3"):
                jobs.append(("proposal", "T2", pp, model_cfg(f"T2_{pp}_holds", "T2", PROTO_CLAUSES[pp][0], proto=pp,
                                                             crashes=1, rounds=1)))
                for c in PROTO_CLAUSES[pp][1]:
                    jobs.append(("proposal_fails", "T2", (pp, c), model_cfg(f"T2_{pp}_f_{c}", "T2", [c], proto=pp, crashes=0,
                                                                            rounds=(1 if c == "RecoverOK" else 0))))
            jobs.append(("proposal_fails", "T2", ("v2", "Terminates"),
                         model_cfg("T2_v2_f_Terminates", "T2", ["Terminates"], proto="v2", crashes=1, rounds=0)))
    for c in fail_clauses:
        for lay in (["T2"] if quick else ["T1", "T2"]):
            jobs.append(("fails", lay, c, model_cfg(f"{lay}_{proto}_f_{c}", lay, [c], proto=proto, crashes=0,
                                                    rounds=(1 if c in ("RecoverOK", "NotUsable") else 0), hist=True)))

    def mc(job):
        kind, lay, clause, cfg = job
        try:
            r = tlc.run_tlc("CopyConcMC", cfg, name="ccmc" + re.sub(r"\W", "", f"{kind}{lay}{clause or str()}"),
                            workers=(4 if kind != "fails" else 1), coverage=(kind == "holds"), timeout=3000)
        except tlc.TLCError as e:
            if kind == "proposal_fails" and "constitutes a counter-example" in str(e):
                r = tlc.TLCResult()        # a liveness counterexample (lasso): kdverif.tlc has no parser for it
                r.violated = ["Terminates"]
            else:
                raise
        return job, r

    refuted, cexes = set(), []
    t0 = time.time()
    # the schedules of the real code that do not depend on the model's counterexamples are explored meanwhile
    scns = scenarios(tier)
    order = sorted(range(len(scns)), key=lambda i: (scns[i][1]["mode"] != "dfs", -(scns[i][1].get("limit") or 10 ** 6)
                                                    if scns[i][1]["mode"] == "dfs" else 0))
    ejobs = [("explore", (i, scns[i][0], scns[i][1], seed)) for i in order]
    bg = ThreadPoolExecutor(max_workers=1)
    t1 = time.time()
    efut = bg.submit(lambda: (run_jobs(ejobs, int(os.environ.get("KDVERIF_JOBS", "10"))), time.time() - t1))
    with ThreadPoolExecutor(max_workers=4) as ex:
        results = list(ex.map(mc, jobs))
    v.coverage["wall_model_checking_s"] = round(time.time() - t0, 1)
    for (kind, lay, clause, cfg), r in results:
        label = {"holds": "clauses that hold for concurrent invocations", "serial": "all clauses, callers serialise",
                 "fails": f"EXPECTED TO FAIL: {clause}", "proposal": f"repair proposal {clause}: clauses that hold",
                 "proposal_fails": f"repair proposal {clause}: still EXPECTED TO FAIL"}[kind]
        v.add_tlc(r, f"CopyConc.tla {cfg}: {label}")
        if kind == "proposal":
            if r.violated:
                raise tlc.TLCError(f"{cfg}: the model of repair proposal {clause} violates {r.violated}")
            v.coverage.setdefault("repair_proposals", {}).setdefault(clause, {})["holds"] = PROTO_CLAUSES[clause][0]
            continue
        if kind == "proposal_fails":
            if not r.violated:
                raise tlc.TLCError(f"{cfg}: expected the model of repair proposal {clause[0]} to violate {clause[1]}")
            v.coverage.setdefault("repair_proposals", {}).setdefault(clause[0], {}).setdefault("still_fails", []).append(clause[1])
            continue
        if kind in ("holds", "serial"):
            for nm in r.violated:
                v.violation(f"model:{kind}:{lay}:{nm}", f"the protocol model ({cfg}) violates {nm}, which it is claimed to "
                            f"satisfy", dict(cex=str(r.cex)[:6000]))
            if kind == "holds" and lay in ("T2", "L2"):
                skip = {"ATouch", "AMkSub", "ATouchSub"} if False else set()
                for act in (ACTIONS_V1 if proto == "v1" else [a for a in ACTIONS_V1 if a not in ACTIONS_V1_ONLY] + ACTIONS_V3_ONLY):
                    if act in skip:
                        continue
                    if lay == "L2" and act in ("ARmFile",):
                        continue   # no file in the root of L2
                    if r.coverage.get(act, (0, 0))[1] == 0:
                        raise tlc.TLCError(f"vacuity: action {act} of CopyConc.tla never taken in {cfg}")
        else:
            if clause not in r.violated:
                if proto == "v1":
                    raise tlc.TLCError(f"{cfg}: clause {clause} was expected to FAIL for the protocol of the current tree "
                                       f"under concurrent invocations but TLC found no counterexample")
                continue
            refuted.add(clause)
            init, fmt, sched = parse_cex(r.stdout)
            cexes.append(dict(clause=clause, layout=lay, init=init, fmt=fmt, sched=sched))
    v.coverage["protocol"] = proto
    v.coverage["clauses_hold_concurrent"] = hold_clauses
    v.coverage["clauses_refuted_concurrent"] = sorted(refuted)

    # ---- (R) the model's counterexamples on the real code; (T) schedules of the real code
    rjobs = []
    for cx in cexes:
        for func in ("folder", "imagefolder"):
            rjobs.append((len(rjobs), dict(func=func, fmt=cx["fmt"], layout=cx["layout"], init=cx["init"]), cx["clause"],
                          cx["sched"]))
    all_traces, nstates, exhaustive = [], 0, True
    eres, ewall = efut.result()
    bg.shutdown()
    res = eres + run_jobs([("replay", j) for j in rjobs], int(os.environ.get("KDVERIF_JOBS", "10")))
    v.coverage["wall_real_schedules_s"] = round(ewall, 1)
    by_idx = {order[k]: res[k] for k in range(len(order))}
    replays = res[len(order):]
    per_scn = []
    for i, (scn, plan) in enumerate(scns):
        trs, complete, ns = by_idx[i]
        per_scn.append(dict(scn, **{k: plan[k] for k in plan}, runs=len(trs), complete=complete, states=ns))
        all_traces += trs
        nstates += ns
        if plan["mode"] in ("dfs", "full") and not complete:
            exhaustive = False
    all_traces += replays
    controls = corrupted_controls(all_traces)
    for i, t in enumerate(all_traces + controls, start=1):
        t["id"] = i
    v.coverage["scenarios"] = per_scn
    v.coverage["evaluations"] = len(all_traces)
    v.coverage["traces_validated_against_impl"] = len(all_traces)
    v.coverage["real_states_visited"] = nstates
    v.coverage["exhaustive"] = exhaustive

    by_layout = {}
    for t in all_traces + controls:
        by_layout.setdefault(t["cfg"]["layout"], []).append(t)
    rejected, found, deviations = {}, {}, {}
    t0 = time.time()
    groups = {}
    for layout, trs in sorted(by_layout.items()):
        slim = [dict(id=t["id"], cfg=t["cfg"], ev=t["ev"]) for t in trs]
        groups[(layout, "obs")] = slim
        groups[(layout, "desc")] = [t for t in slim if t["id"] <= len(all_traces)]
    out = validate_all(groups, jobs=int(os.environ.get("KDVERIF_TLC_JOBS", "6")))
    for layout, trs in sorted(by_layout.items()):
        acc, rej, fnd, st = out[(layout, "obs")]
        v.coverage["states"] += st["states"]
        v.coverage["transitions"] += st["transitions"]
        ids = {t["id"] for t in trs}
        if (acc | set(rej)) != ids:
            raise tlc.TLCError(f"obs verdicts not total for layout {layout}: {len(ids)} traces, {len(acc)} accepted, "
                               f"{len(rej)} rejected")
        rejected.update(rej)
        found.update(fnd)
        acc2, prog, _, st2 = out[(layout, "desc")]
        v.coverage["states"] += st2["states"]
        v.coverage["transitions"] += st2["transitions"]
        for t in groups[(layout, "desc")]:
            if t["id"] not in acc2:
                deviations[t["id"]] = prog.get(t["id"], 0)
    v.coverage["wall_trace_validation_s"] = round(time.time() - t0, 1)
    print(f"[{prop}] phases: model checking {v.coverage['wall_model_checking_s']}s, real schedules "
          f"{v.coverage['wall_real_schedules_s']}s, trace validation {v.coverage['wall_trace_validation_s']}s")
    # controls must be rejected for the clause they corrupt
    for t in controls:
        got = rejected.get(t["id"], (0, []))[1]
        if t["base"]["id"] in rejected:
            continue      # the real trace it was made from is itself rejected (reported below): no control
        if t["control"] not in got:
            raise tlc.TLCError(f"negative control failed: a trace corrupted against {t['control']} was not rejected for it "
                               f"(rejected for {got})")
    v.coverage["negative_controls"] = [t["control"] for t in controls] + [f"model: {c} refuted" for c in sorted(refuted)]

    # real traces: strong clauses
    overlapping = set()
    clause_counts = {}
    for t in all_traces:
        k = trace_key(t)
        if any(e["a"] == "op" for e in t["ev"]) and len({e["p"] for e in t["ev"]}) > 1:
            overlapping.add(k)
        if t["id"] in rejected:
            at, clauses = rejected[t["id"]]
            e = t["ev"][at - 1] if 0 < at <= len(t["ev"]) else None
            v.violation(k, f"clauses {clauses} fail on the observed state after event {at} "
                        f"({e and (e['p'], e['a'], e['op'], e['t'], e['n'], e['type'])}) of the real schedule", t)
        for c in found.get(t["id"], ()):
            clause_counts[c] = clause_counts.get(c, 0) + 1
            if c not in refuted and c != "QuiescentCompleteCrash":
                v.violation(k + ":" + c, f"clause {c} fails on a real schedule although the protocol model satisfies it", t)
    # the model's counterexamples must be reproducible
    for t in replays:
        c = t["cfg"]["clause"]
        at = found.get(t["id"], {}).get(c)
        ok = (t["mismatch"] is None) and at is not None and at <= t["cex_end"]
        rec = findings.setdefault(c, dict(clause=c, reproduced=[], model_schedule=t["model_sched"], init=t["cfg"]["init"],
                                          fmt=t["cfg"]["fmt"], layout=t["cfg"]["layout"]))
        if ok:
            rec["reproduced"].append(t["cfg"]["func"])
        else:
            v.violation(f"model-cex:{c}:{t['cfg']['func']}:{t['cfg']['layout']}",
                        f"the model's counterexample of {c} is not reproduced by the real code: "
                        f"{t['mismatch'] or 'the real schedule does not violate the clause where the model does'} "
                        f"(model schedule: {t['model_sched']})", t)
    for c, rec in sorted(findings.items()):
        rec["real_schedules_showing_it"] = clause_counts.get(c, 0)
        print(f"FINDING extra={prop} the protocol is not safe under concurrent invocations: {c} fails "
              f"(init={rec['init']} fmt={rec['fmt']} layout={rec['layout']}); model counterexample reproduced on "
              f"{'+'.join(rec['reproduced']) or 'NOTHING'}; {rec['real_schedules_showing_it']} explored real schedules show it")
        print(f"    schedule: {rec['model_schedule']}")
    v.coverage["findings"] = sorted(findings.values(), key=lambda r: r["clause"])
    v.coverage["finding_counts_real_schedules"] = dict(sorted(clause_counts.items()))
    v.coverage["distinct_nontrivial"] = len(overlapping)
    v.coverage["rule"] = ("one case = one schedule of 2 (3) REAL invocations on one destination: the sequence of grants "
                          "(process, go | die) at the gates before every file-system operation; dfs = all interleavings of "
                          "the scenario up to equality of (disk bytes, per-process history) states, full = all, pb = all "
                          "with <= 1 preemption, random = seeded; non-trivial = operations of at least two processes; "
                          "distinct by scenario and grant sequence")
    ndev = len(deviations)
    v.coverage["protocol_conforming_traces"] = len(all_traces) - ndev
    devs = []
    for t in all_traces:
        if t["id"] in deviations:
            at = deviations[t["id"]]
            nxt = t["ev"][at] if at < len(t["ev"]) else None
            devs.append(dict(key=trace_key(t), matched=at, next_event=nxt and {k: nxt[k] for k in ("p", "a", "op", "t", "n", "type")}))
    v.coverage["protocol_deviations"] = devs[:10]
    if ndev:
        print(f"NOTE property={prop}: {ndev} of {len(all_traces)} real schedules are not behaviours of the descriptive "
              f"model CopyConc.tla Proto={proto} (no clause the model guarantees failed on them)")
        v.notes.append("descriptive-model deviations present; the verdict rests on the normative observation check")
    multi = [t for t in all_traces if t["cfg"]["mode"] == "dfs"]
    for t in multi[:1] + replays[:1]:
        v.sample(dict(cfg=t["cfg"], sched=t["sched"], ev=[{k: e[k] for k in ("p", "a", "op", "t", "n", "type")} for e in t["ev"][:40]]))
    v.assumptions += ["file-system operations are atomic and sequentially consistent (one node, local file system); the "
                      "scheduler grants one operation at a time", "num_workers = 0; relative_path = None",
                      "process death = os._exit before a gated operation; at most one death per schedule",
                      "the payload of a file is written in one piece after the creating open (no torn writes)"]
    return v.finish()


if __name__ == "__main__" and "--worker" in sys.argv:
    worker_main()
