"""C18: the collator pipeline (KDCollatorBase._call_impl behind KDComposeCollator / KDSingleCollator /
KDSingleCollatorWrapper) and the padding collator.

(M) TLC checks specs/CollateProps.tla (the state machine of _call_impl: every order of None/before/after members x
    return_ctx x number of items x entry point) and specs/CollatePadProps.tla (PadSequencesCollator.collate with its
    recursion, field loop and type decisions, on concrete length profiles) against the normative clauses; Proto "v1"
    (repaired tree) must hold, Proto "v0" (tree as found) is the negative control and must violate.
(T) The REAL collators are run: the pipeline with probe members (harness code, configurable default_collate_mode) that
    record the structure they receive and stamp every tensor item; the padding collator on harness datasets with
    variable-length items. Batches are [ModeWrapper(ds, mode, return_ctx)[i] for i in idxs]. Python only records and
    projects (layout name, matrix of cell values, dims / rows of the returned fields, ctx keys / values); the clauses
    are evaluated by TLC: CollateTrace.tla / CollatePadTrace.tla (Obs = verdict, Desc = conformance to the machine).
"""
import itertools
import os
import random
import signal
import traceback

from kdverif import core, tlc, tracecheck

ITEM_NDIM = {"x": 1, "z": 1, "m": 2, "class": 0, "index": 0}
ITEM_CODE = {"x": 1, "z": 2, "m": 3}
SCALE = 256
DEADLINE_CPU_S = 20.0   # CPU seconds of this process per call into the repository (a call needs milliseconds)
DEADLINE_WALL_S = 300.0
OWN_REFUSALS = ("AssertionError", "NotImplementedError", "ValueError", "RuntimeError", "UseModeWrapperException")


# ---------------------------------------------------------------- calls into the repository: deadline + classification
class Deadline(BaseException):
    pass


def _on_alarm(signum, frame):
    raise Deadline()


def guarded(fn):
    """returns (kind, value): ret | refuse | escape | diverge. refuse = an assert / raise statement in kappadata source
    is the innermost frame (an explicit refusal of the component's own making); anything else that raises escapes."""
    old = signal.signal(signal.SIGALRM, _on_alarm)
    oldp = signal.signal(signal.SIGPROF, _on_alarm)
    signal.setitimer(signal.ITIMER_PROF, DEADLINE_CPU_S)
    signal.setitimer(signal.ITIMER_REAL, DEADLINE_WALL_S)
    try:
        try:
            return "ret", fn()
        finally:
            signal.setitimer(signal.ITIMER_PROF, 0)
            signal.setitimer(signal.ITIMER_REAL, 0)
    except Deadline:
        return "diverge", "deadline"
    except Exception as e:  # noqa
        tb = traceback.extract_tb(e.__traceback__)
        last = tb[-1]
        src = os.path.realpath(last.filename)
        own = src.startswith(os.path.realpath(os.path.join(core.REPO, "kappadata")) + os.sep)
        line = (last.line or "").strip()
        info = f"{type(e).__name__}: {str(e)[:160]} @ {os.path.basename(last.filename)}:{last.lineno} `{line[:100]}`"
        if own and type(e).__name__ in OWN_REFUSALS and (line.startswith("assert") or line.startswith("raise")):
            return "refuse", info
        return "escape", info
    finally:
        signal.signal(signal.SIGALRM, old)
        signal.signal(signal.SIGPROF, oldp)


# ---------------------------------------------------------------- projection helpers (no verdicts here)
def uniform_int(v):
    """the single integer a cell holds (python int, or tensor whose entries are all equal), else -1"""
    import torch
    try:
        if isinstance(v, bool):
            return -1
        if isinstance(v, int):
            return v if abs(v) < 2 ** 31 else -1
        if torch.is_tensor(v):
            if v.numel() == 0:
                return -1
            f = v.flatten()
            if not bool((f == f[0]).all()):
                return -1
            x = f[0].item()
            if isinstance(x, float):
                if not x.is_integer():
                    return -1
                x = int(x)
            return int(x) if abs(int(x)) < 2 ** 31 else -1
    except Exception:  # noqa
        return -1
    return -1


def int_list(t):
    """flattened tensor slice as a list of ints (-1 for anything that is no integer value)"""
    out = []
    for x in t.flatten().tolist():
        if isinstance(x, bool):
            out.append(int(x))
        elif isinstance(x, int):
            out.append(x if abs(x) < 2 ** 31 else -1)
        elif isinstance(x, float) and x.is_integer() and abs(x) < 2 ** 31:
            out.append(int(x))
        else:
            out.append(-1)
    return out


def _item_like(v, item):
    import torch
    nd = ITEM_NDIM[item]
    if nd == 0:
        return (isinstance(v, int) and not isinstance(v, bool)) or (torch.is_tensor(v) and v.ndim == 0)
    return torch.is_tensor(v) and v.ndim == nd


def _sample_items(e, items):
    """the K items of one sample-major entry, or None"""
    K = len(items)
    if K == 1:
        return [e] if _item_like(e, items[0]) else None
    if isinstance(e, (tuple, list)) and len(e) == K and all(_item_like(v, it) for v, it in zip(e, items)):
        return list(e)
    return None


def project_batch(batch, items):
    """(layout, B x K matrix of cell values): smp | sctx | fld | other"""
    import torch
    K = len(items)
    try:
        # field-major: one stacked tensor per item (bare for a single item)
        fields = None
        if K == 1 and torch.is_tensor(batch):
            fields = [batch]
        elif K > 1 and isinstance(batch, (list, tuple)) and len(batch) == K and all(torch.is_tensor(f) for f in batch):
            fields = list(batch)
        if fields is not None:
            if all(f.ndim == ITEM_NDIM[it] + 1 for f, it in zip(fields, items)) and len({f.shape[0] for f in fields}) == 1:
                B = fields[0].shape[0]
                return "fld", [[uniform_int(fields[k][b]) for k in range(K)] for b in range(B)]
            return "other", []
        if isinstance(batch, (list, tuple)) and len(batch) >= 1:
            rows = [_sample_items(e, items) for e in batch]
            if all(r is not None for r in rows):
                return "smp", [[uniform_int(v) for v in r] for r in rows]
            if all(isinstance(e, tuple) and len(e) == 2 and isinstance(e[1], dict) for e in batch):
                rows = [_sample_items(e[0], items) for e in batch]
                if all(r is not None for r in rows):
                    return "sctx", [[uniform_int(v) for v in r] for r in rows]
    except Exception:  # noqa
        pass
    return "other", []


def stamp_batch(batch, lay, items, bit):
    """what a probe member returns: the same structure with `bit` added to every tensor item"""
    K = len(items)
    tens = [it in ITEM_CODE for it in items]

    def st_items(e):
        if K == 1:
            return e + bit if tens[0] else e
        return type(e)(v + bit if t else v for v, t in zip(e, tens)) if isinstance(e, tuple) else \
            [v + bit if t else v for v, t in zip(e, tens)]

    if lay == "fld":
        if K == 1:
            return batch + bit if tens[0] else batch
        out = [f + bit if t else f for f, t in zip(batch, tens)]
        return tuple(out) if isinstance(batch, tuple) else out
    if lay == "smp":
        out = [st_items(e) for e in batch]
        return tuple(out) if isinstance(batch, tuple) else out
    if lay == "sctx":
        out = [(st_items(e[0]), e[1]) for e in batch]
        return tuple(out) if isinstance(batch, tuple) else out
    return batch


def ctx_desc(ctx, B):
    """(kind, keys, vals[key][b]) of a batched context"""
    import torch
    if not isinstance(ctx, dict):
        return "other", [], []
    keys, vals = [], []
    for k, v in ctx.items():
        keys.append(str(k))
        if torch.is_tensor(v) and v.ndim >= 1:
            vals.append([uniform_int(v[b]) for b in range(v.shape[0])])
        elif isinstance(v, (list, tuple)):
            vals.append([uniform_int(x) for x in v])
        else:
            vals.append([])
    return "dict", keys, vals


def sample_ctx_desc(samples, has_ctx):
    skeys, svals = [], []
    for s in samples:
        if has_ctx:
            d = s[1]
            skeys.append([str(k) for k in d])
            svals.append([uniform_int(v) for v in d.values()])
        else:
            skeys.append([])
            svals.append([])
    return skeys, svals


# ---------------------------------------------------------------- harness objects (built after the repo is importable)
_CLS = {}


def classes():
    if _CLS:
        return _CLS
    import torch
    from kappadata.datasets.kd_dataset import KDDataset
    from kappadata.collators.base.kd_single_collator import KDSingleCollator

    class PipeDS(KDDataset):
        """fresh objects on every access; every tensor item is constant = (code * 100 + idx) * SCALE"""
        N = 8

        def __len__(self):
            return self.N

        def getitem_x(self, idx, ctx=None):
            if ctx is not None:
                ctx["cx"] = idx * 3 + 1
            return torch.full((2,), (100 + idx) * SCALE, dtype=torch.long)

        def getitem_z(self, idx, ctx=None):
            if ctx is not None:
                ctx["cz"] = torch.full((2,), idx + 50, dtype=torch.long)
            return torch.full((2,), (200 + idx) * SCALE, dtype=torch.long)

        def getitem_m(self, idx, ctx=None):
            if ctx is not None:
                ctx["cm"] = idx + 20
            return torch.full((2, 2), (300 + idx) * SCALE, dtype=torch.long)

        def getitem_class(self, idx, ctx=None):
            return (idx * 7 + 3) % 5

    class Probe(KDSingleCollator):
        """member with a configurable default_collate_mode: records what it receives, stamps every tensor item"""

        def __init__(self, mode, j, log, **kw):
            super().__init__(**kw)
            self._mode, self.j, self.log = mode, j, log

        @property
        def default_collate_mode(self):
            return self._mode

        def collate(self, batch, dataset_mode, ctx=None):
            items = dataset_mode.split(" ")
            lay, cells = project_batch(batch, items)
            self.log.append(dict(a="m", j=self.j, lay=lay, cells=cells, pair=False, ckind="none", rkeys=[], rvals=[],
                                 gotctx=("dict" if isinstance(ctx, dict) else "other")))
            return stamp_batch(batch, lay, items, 2 ** (self.j - 1))

    class PadDS(KDDataset):
        """items f1..f6 with per-instance field kinds and values (table driven)"""

        def __init__(self, fields, vals):
            super().__init__()
            self.fields, self.vals = fields, vals

        def __len__(self):
            return len(self.vals)

        def _get(self, k, idx, ctx):
            f, v = self.fields[k], self.vals[idx][k]
            if ctx is not None:
                ctx[f"k{k + 1}"] = 900 + 10 * k + idx
                if k == 0:
                    ctx["t1"] = torch.full((2,), idx + 1, dtype=torch.long)
            if f["t"] == "sc" and f.get("fl"):
                # a python float (per-sample weight): an exact binary fraction with 30 significant bits - default
                # collation keeps it (float64); any detour through float32 changes it
                return float(v[0]) / 2 ** 30
            if f["t"] == "sc":
                return int(v[0])
            if f["t"] == "dc":
                return {"m": int(v[0])}
            if f["t"] == "t0":
                return torch.tensor(int(v[0]), dtype=torch.long)
            t = torch.tensor(v, dtype=torch.long)
            return t.reshape(-1, *f["tail"]) if f["tail"] else t.reshape(-1)

    for _k in range(6):
        def _mk(k):
            def getitem(self, idx, ctx=None):
                return self._get(k, idx, ctx)

            return getitem

        setattr(PadDS, f"getitem_f{_k + 1}", _mk(_k))
    _CLS.update(PipeDS=PipeDS, Probe=Probe, PadDS=PadDS)
    return _CLS


MODE_OF = {"n": None, "b": "before", "a": "after"}
EMPTY_EV = dict(j=0, lay="other", cells=[], pair=False, ckind="none", rkeys=[], rvals=[], gotctx="none")


# ---------------------------------------------------------------- pipeline traces
def record_pipe(order, rc, mode, idxs, entry):
    """run the real composed / single / wrapped collator with probe members; returns (cfg, events, info)"""
    from kappadata.collators import KDComposeCollator, KDSingleCollatorWrapper
    from kappadata.wrappers import ModeWrapper
    c = classes()
    items = mode.split(" ")
    mw = ModeWrapper(c["PipeDS"](), mode=mode, return_ctx=rc)
    samples = [mw[i] for i in idxs]
    skeys, svals = sample_ctx_desc(samples, rc)
    cfg = dict(order=list(order), rc=bool(rc), K=len(items), entry=entry, mode=items, idxs=list(idxs), B=len(idxs),
               skeys=skeys, svals=svals)
    log = []

    def build_and_call():
        if entry == "compose":
            col = KDComposeCollator([c["Probe"](MODE_OF[m], j + 1, log) for j, m in enumerate(order)],
                                   dataset_mode=mode, return_ctx=rc)
        elif entry == "single":
            col = c["Probe"](MODE_OF[order[0]], 1, log, dataset_mode=mode, return_ctx=rc)
        else:
            col = KDSingleCollatorWrapper(c["Probe"](MODE_OF[order[0]], 1, log), dataset_mode=mode, return_ctx=rc)
        return col(samples)

    kind, val = guarded(build_and_call)
    ev = list(log)
    info = None
    if kind == "ret":
        pair = isinstance(val, (tuple, list)) and len(val) == 2 and isinstance(val[1], dict)
        data = val[0] if pair else val
        lay, cells = project_batch(data, items)
        ck, rk, rv = ctx_desc(val[1], len(idxs)) if pair else ("none", [], [])
        ev.append(dict(EMPTY_EV, a="ret", lay=lay, cells=cells, pair=bool(pair), ckind=ck, rkeys=rk, rvals=rv))
    else:
        ev.append(dict(EMPTY_EV, a=kind))
        info = val
    return cfg, ev, info


def acceptable(order):
    a = 0
    while a < len(order) and order[a] == "n":
        a += 1
    rest = order[a:]
    return (not rest) or all(m == "b" for m in rest) or (rest[0] == "a" and all(m == "b" for m in rest[1:]))


PIPE_MODES = ["x", "class", "index", "m", "x z", "x m", "class x", "z index", "x class z", "m index x", "x z m",
              "index class"]


def pipe_cases(tier, r):
    """(order, rc, mode, idxs, entry)"""
    quick = tier == "quick"
    cases = []
    maxlen = 4
    orders = [o for n in range(1, maxlen + 1) for o in itertools.product("nba", repeat=n)]
    for order in orders:
        for rc in (False, True):
            for mode in PIPE_MODES:
                # orders that must be served: all batch sizes; orders that must be refused: one batch size in quick
                bs = (1, 2, 3) if (not quick or acceptable(order)) else r.sample((1, 2, 2, 3, 3, 4), 1)
                for B in bs:
                    cases.append((order, rc, mode, r.sample(range(8), B), "compose"))
    for m in "nba":
        for rc in (False, True):
            for mode in PIPE_MODES:
                for B in (1, 2, 3):
                    for entry in ("single", "wrapper"):
                        cases.append(((m,), rc, mode, r.sample(range(8), B), entry))
    # larger random configurations: 5..7 members, up to 5 items, batch sizes up to 8; mostly orders that must work
    pool = ["x", "z", "m", "class", "index"]
    for _ in range(600 if quick else 6000):
        n = r.randint(5, 7)
        if r.random() < 0.7:
            a = r.randint(0, n)
            rest = n - a
            if rest == 0:
                order = "n" * n
            elif r.random() < 0.5:
                order = "n" * a + "b" * rest
            else:
                order = "n" * a + "a" + "b" * (rest - 1)
            order = tuple(order)
        else:
            order = tuple(r.choice("nba") for _ in range(n))
        k = r.randint(1, 5)
        mode = " ".join(r.sample(pool, k))
        B = r.randint(1, 8)
        cases.append((order, r.random() < 0.5, mode, [r.randrange(8) for _ in range(B)], "compose"))
    return cases


def pipe_key(cfg):
    return (f"pipe:{cfg['entry']}:order={''.join(cfg['order'])}:rc={int(cfg['rc'])}:K={cfg['K']}")


# ---------------------------------------------------------------- padding traces
def record_pad(fields, lens, vals, style, entry):
    from kappadata.collators import KDComposeCollator, KDSingleCollatorWrapper, PadSequencesCollator
    from kappadata.wrappers import ModeWrapper
    c = classes()
    B, K = len(vals), len(fields)
    mode = " ".join(f"f{k + 1}" for k in range(K))
    sctx = style != "plain"
    rc = style == "ctx"
    mw = ModeWrapper(c["PadDS"](fields, vals), mode=mode, return_ctx=sctx)
    samples = [mw[i] for i in range(B)]
    skeys, svals = sample_ctx_desc(samples, sctx)
    cfg = dict(fields=[dict(t=f["t"], tail=list(f["tail"])) for f in fields], B=B, len=lens, vals=vals, style=style,
               entry=("wrapper" if entry == "wrapper2" else entry), variant=entry, skeys=skeys, svals=svals)

    # every third multi-field case: the SAME PadSequencesCollator object served another pipeline with another item order
    # before (one collator object shared by two compositions); it keeps no state between batches
    shared = K >= 2 and entry in ("compose", "wrapper") and (sum(sum(row) for row in lens) + B) % 3 == 0

    def build_and_call():
        member = PadSequencesCollator()
        if shared:
            rmode = " ".join(f"f{k + 1}" for k in reversed(range(K)))
            rmw = ModeWrapper(c["PadDS"](fields, vals), mode=rmode, return_ctx=sctx)
            try:
                KDSingleCollatorWrapper(member, dataset_mode=rmode, return_ctx=rc)([rmw[i] for i in range(B)])
            except Exception:  # noqa: the earlier pipeline is not the observation
                pass
        if entry == "compose":
            col = KDComposeCollator([member], dataset_mode=mode, return_ctx=rc)
        elif entry == "single":
            col = PadSequencesCollator(dataset_mode=mode, return_ctx=rc)
        elif entry == "wrapper":
            col = KDSingleCollatorWrapper(member, dataset_mode=mode, return_ctx=rc)
        else:
            # the wrapped collator was built with a configuration of its own: the wrapper's configuration counts
            col = KDSingleCollatorWrapper(PadSequencesCollator(dataset_mode="f1", return_ctx=not rc), dataset_mode=mode,
                                          return_ctx=rc)
        return col(samples)

    kind, val = guarded(build_and_call)
    ev = dict(a=kind, pair=False, bare=False, nf=0, f=[], rkeys=[], rvals=[])
    info = None
    if kind == "ret":
        ev.update(project_pad_result(val, B))
    else:
        info = val
    return cfg, [ev], info


def project_pad_result(val, B):
    import torch
    pair = isinstance(val, (tuple, list)) and len(val) == 2 and isinstance(val[1], dict)
    data = val[0] if pair else val

    def field(x):
        if isinstance(x, dict) and set(x) == {"m"}:
            x = x["m"]  # a default-collated dict item: {"m": tensor of the per-sample values}
        if torch.is_tensor(x) and x.ndim >= 1:
            if x.is_floating_point() and x.numel() and float(x.abs().max()) <= 1.0:
                x = (x.double() * 2 ** 30).round()     # the float-valued scalar items (see PadDS): back to their integers
            return dict(dims=list(x.shape), rows=[int_list(x[b]) for b in range(x.shape[0])])
        return dict(dims=[], rows=[])

    if isinstance(data, (list, tuple)):
        d = dict(bare=False, nf=len(data), f=[field(x) for x in data])
    else:
        d = dict(bare=True, nf=1, f=[field(data)])
    ck, rk, rv = ctx_desc(val[1], B) if pair else ("none", [], [])
    d.update(pair=bool(pair), rkeys=rk, rvals=rv)
    return d


KINDS = [dict(t="seq", tail=[]), dict(t="seq", tail=[2]), dict(t="sc", tail=[]), dict(t="t0", tail=[])]


def width(f):
    w = 1
    for d in f["tail"]:
        w *= d
    return w


def make_vals(fields, lens, r):
    """non-zero original values (zeros are what padding adds)"""
    vals = []
    # every third case carries token-id sized content: odd values above 2**24 have no float32 representation, so a
    # padded field that went through another dtype no longer holds "the original content"
    big = r.random() < 1 / 3

    def tok():
        return r.randrange(2 ** 24 + 1, 2 ** 30, 2) if big and r.random() < 0.5 else r.randint(1, 999)

    for b, row in enumerate(lens):
        vals.append([[tok() for _ in range(row[k] * width(f))] if f["t"] == "seq" else
                     ([r.randrange(2 ** 29 + 1, 2 ** 30, 2)] if f.get("fl") else [r.randint(1, 999)])
                     for k, f in enumerate(fields)])
    return vals


def pad_cases(tier, r):
    """(fields, lens, style, entry): the grid of CollatePadProps_quick.cfg (K <= 2, B <= 2, lengths 0..2) exhaustively,
    then random larger ones (K <= 4, B <= 6, lengths 0..9, trailing widths 2 / 3, equal-length tensors)"""
    quick = tier == "quick"
    cases = []
    maxb, lo, hi = (2, 0, 2) if quick else (3, 0, 2)
    for K in (1, 2):
        for fs in itertools.product(KINDS, repeat=K):
            for B in range(1, maxb + 1):
                slots = [(b, k) for b in range(B) for k in range(K) if fs[k]["t"] == "seq"]
                for prof in itertools.product(range(lo, hi + 1), repeat=len(slots)):
                    lens = [[1] * K for _ in range(B)]
                    for (b, k), v in zip(slots, prof):
                        lens[b][k] = v
                    for style in ("plain", "ctx", "raw"):
                        for entry in ("compose", "single", "wrapper"):
                            cases.append((list(fs), lens, style, entry))
    if quick:
        r.shuffle(cases)
        cases = cases[:3000]
    big = [dict(t="seq", tail=[]), dict(t="seq", tail=[]), dict(t="seq", tail=[2]), dict(t="seq", tail=[3]),
           dict(t="seq", tail=[2, 2]), dict(t="seq", tail=[1, 3]),   # image-like sequence elements (>= 3 dims)
           dict(t="sc", tail=[]), dict(t="t0", tail=[]), dict(t="dc", tail=[]),   # dc: a dict-valued item
           dict(t="sc", tail=[], fl=True)]                                            # a python float scalar
    for _ in range(1200 if quick else 12000):
        K = r.randint(1, 4)
        fs = [dict(r.choice(big)) for _ in range(K)]
        if K == 2 and fs[1]["t"] == "dc":
            # a two-item batch ending in a dict cannot be told from (batch, ctx) by any observer
            fs = [fs[1], fs[0]] if fs[0]["t"] != "dc" else [fs[0], dict(t="sc", tail=[])]
        B = r.randint(1, 6)
        lens = [[1] * K for _ in range(B)]
        for k, f in enumerate(fs):
            if f["t"] == "seq":
                fixed = r.random() < 0.2  # a fixed-shape tensor item: all lengths equal
                L = r.randint(1, 9)
                for b in range(B):
                    lens[b][k] = L if fixed else r.randint(0 if r.random() < 0.15 else 1, 9)
        cases.append((fs, lens, r.choice(["plain", "ctx", "raw"]),
                      r.choice(["compose", "compose", "single", "wrapper", "wrapper2"])))
    return cases


def pad_key(cfg):
    fs = ",".join(f["t"] + ("x" + "x".join(map(str, f["tail"])) if f["tail"] else "") for f in cfg["fields"])
    return f"pad:{cfg.get('variant', cfg['entry'])}:{cfg['style']}:fields={fs}"


# ---------------------------------------------------------------- TLC side
CHUNK_CAP = 1500   # traces per JVM (the verdict sets printed by TLC are parsed line by line in Python)


def validate_chunked(module, cfgfile, traces, name, jobs):
    """tracecheck.validate over groups of at most jobs * CHUNK_CAP traces; merged (accepted, rejected, stats)"""
    acc, rej, st = set(), {}, dict(states=0, transitions=0)
    step = jobs * CHUNK_CAP
    for g in range(0, len(traces), step):
        a, rj, s1 = tracecheck.validate(module, cfgfile, traces[g:g + step], f"{name}{g // step}", jobs)
        acc |= a
        rej.update(rj)
        st["states"] += s1["states"]
        st["transitions"] += s1["transitions"]
    return acc, rej, st


def desc_conform(module, cfgfile, traces, name, jobs=6):
    """how many traces are behaviours of the descriptive machine (informative)"""
    import json
    from concurrent.futures import ThreadPoolExecutor
    if not traces:
        return set(), 0, 0
    nch = max(jobs, -(-len(traces) // CHUNK_CAP))
    chunks = [traces[i::nch] for i in range(nch)]
    chunks = [c for c in chunks if c]

    def one(i_ch):
        i, ch = i_ch
        path = os.path.join(tlc.WORK, f"{name}-{os.getpid()}-{i}.json")
        with open(path, "w") as f:
            json.dump(dict(traces=ch), f)
        try:
            r = tlc.run_tlc(module, cfgfile, name=f"{name}{i}", workers=1, env=dict(TRACE_FILE=path), timeout=3000)
        finally:
            os.remove(path)
        acc = tlc.tagged(r.prints, "ACCEPTED")
        if len(acc) != 1:
            raise tlc.TLCError(f"{module}/{cfgfile}: no ACCEPTED line\n{r.stdout[-2000:]}")
        return set(acc[0]), r

    ok, st, tr = set(), 0, 0
    with ThreadPoolExecutor(max_workers=jobs) as ex:
        for a, r in ex.map(one, list(enumerate(chunks))):
            ok |= a
            st += r.distinct_states
            tr += r.states_generated
    return ok, st, tr


MC_RUNS = [
    # (module, quick cfg, thorough cfg, label, named actions that must all be taken, invariants that MUST be violated)
    ("CollateProps", "CollateProps_quick.cfg", "CollateProps_thorough.cfg", "CollateProps exhaustive (Proto v1)",
     ("Configure", "PCheckNone", "PBefore", "PSplit", "PCall", "PAfter", "PReturn"), None),
    ("CollatePadProps", "CollatePadProps_quick.cfg", "CollatePadProps_thorough.cfg", "CollatePadProps exhaustive (Proto v1)",
     ("Configure", "PEntry", "PEnter", "PField", "PFieldsDone", "PPairData", "PPairCtx", "PFinish"), None),
    # negative controls: the tree as found (Proto v0) must violate the clauses
    ("CollateProps", "CollateProps_v0.cfg", "CollateProps_v0.cfg", "CollateProps negative control (Proto v0)",
     (), {"M_NoEscape", "M_AtMostOnce", "M_RefusesUnacceptable"}),
    ("CollatePadProps", "CollatePadProps_v0.cfg", "CollatePadProps_v0.cfg", "CollatePadProps negative control (Proto v0)",
     (), {"M_Answers"}),
]


def start_model_checks(ex, prop, tier):
    quick = tier == "quick"
    futs = []
    for n, (module, qc, tc, label, acts, must) in enumerate(MC_RUNS):
        kw = dict(name=f"{prop}mc{n}", workers=4 if quick else 8, timeout=3000)
        if must is None:
            kw["coverage"] = True
        else:
            kw["extra"] = ["-continue"]
        futs.append(ex.submit(tlc.run_tlc, module, qc if quick else tc, **kw))
    return futs


def finish_model_checks(v, futs):
    for (module, qc, tc, label, acts, must), fut in zip(MC_RUNS, futs):
        res = fut.result()
        if must is None:
            v.add_tlc(res, label)
            for nm in res.violated:
                v.violation(f"model:{module}:{nm}", f"design model {module} (Proto v1) violates {nm}",
                            dict(cex=str(res.cex)[:6000]))
            for act in acts:
                if res.coverage.get(act, (0, 0))[1] == 0:
                    raise tlc.TLCError(f"vacuity: action {act} never taken in {module}")
        else:
            v.add_tlc(res, f"{label}, violated: {sorted(set(res.violated))}")
            if not must <= set(res.violated):
                raise tlc.TLCError(f"vacuity: {module} with Proto v0 does not violate {sorted(must - set(res.violated))}")


def corrupt_pipe(t):
    """negative-control twins of an accepted pipeline trace: each must be rejected"""
    import copy
    out = []
    last = t["ev"][-1]
    if last["a"] != "ret" or last["lay"] != "fld" or t["cfg"]["B"] < 2:
        return out
    a = copy.deepcopy(t)
    a["ev"][-1]["cells"][0], a["ev"][-1]["cells"][1] = a["ev"][-1]["cells"][1], a["ev"][-1]["cells"][0]
    if a["ev"][-1]["cells"] != last["cells"]:
        out.append(("C18_FinalContent", a))  # two samples swapped
    b = copy.deepcopy(t)
    b["ev"][-1]["pair"] = not last["pair"]
    out.append(("C18_CtxIff", b))
    c = copy.deepcopy(t)
    c["ev"][-1]["lay"] = "smp"
    out.append(("C18_FinalLayout", c))
    if len(t["ev"]) >= 2:
        d = copy.deepcopy(t)
        d["ev"][0]["lay"] = "fld" if d["ev"][0]["lay"] != "fld" else "smp"
        out.append(("C18_MemberLayout", d))
    if last["pair"] and last["rkeys"]:
        e = copy.deepcopy(t)
        e["ev"][-1]["rkeys"] = e["ev"][-1]["rkeys"][:-1]
        e["ev"][-1]["rvals"] = e["ev"][-1]["rvals"][:-1]
        out.append(("C18_CtxKeys", e))
        f = copy.deepcopy(t)
        f["ev"][-1]["rvals"][0] = list(reversed(f["ev"][-1]["rvals"][0]))
        if f["ev"][-1]["rvals"][0] != last["rvals"][0]:
            out.append(("C18_CtxValues", f))
    return out


def corrupt_pad(t):
    import copy
    out = []
    e = t["ev"][0]
    if e["a"] != "ret":
        return out
    cfg = t["cfg"]
    for k, f in enumerate(cfg["fields"]):
        if f["t"] != "seq":
            continue
        lens = [cfg["len"][b][k] for b in range(cfg["B"])]
        if max(lens) > min(lens):
            b = lens.index(min(lens))
            a = copy.deepcopy(t)
            a["ev"][0]["f"][k]["rows"][b][-1] = 7  # padding is not zero
            out.append(("P_Zeros", a))
            c = copy.deepcopy(t)
            c["ev"][0]["f"][k]["rows"] = [row[:-width(f)] for row in c["ev"][0]["f"][k]["rows"]]
            c["ev"][0]["f"][k]["dims"][1] -= 1  # padded to max - 1
            out.append(("P_PadToMax", c))
        if max(lens) >= 1:
            b = lens.index(max(lens))
            d = copy.deepcopy(t)
            d["ev"][0]["f"][k]["rows"][b][0] += 1  # original content changed
            out.append(("P_Prefix", d))
        break
    return out


def run(prop, tier, seed):
    core.use_repo()
    v = core.Verdict(prop, tier, seed)
    r = random.Random(seed * 7919 + 18)
    from concurrent.futures import ThreadPoolExecutor
    ex = ThreadPoolExecutor(max_workers=8)
    mc_futs = start_model_checks(ex, prop, tier)

    # ---- (T) traces from the real code
    pipe, pad, infos = [], [], {}
    tid = 0
    for case in pipe_cases(tier, r):
        tid += 1
        cfg, ev, info = record_pipe(*case)
        pipe.append(dict(id=tid, cfg=cfg, ev=ev))
        infos[tid] = info
    for fields, lens, style, entry in pad_cases(tier, r):
        tid += 1
        cfg, ev, info = record_pad(fields, lens, make_vals(fields, lens, r), style, entry)
        pad.append(dict(id=tid, cfg=cfg, ev=ev))
        infos[tid] = info

    # negative controls: corrupted copies of real traces (ids >= NEG) must be rejected with the expected clause
    NEG = 10 ** 6
    neg_expect = {}

    def add_neg(real, make, into):
        n = 0
        for t in real:
            try:
                twins = make(t)
            except Exception:  # noqa  (a malformed answer of broken code cannot be corrupted meaningfully)
                continue
            for clause, bad in twins:
                nid = NEG + len(neg_expect)
                bad["id"] = nid
                neg_expect[nid] = (clause, t["id"])
                into.append(bad)
                n += 1
            if n >= 40:
                break

    neg_pipe, neg_pad = [], []
    add_neg([t for t in pipe if t["cfg"]["rc"] and t["ev"][-1]["a"] == "ret" and len(t["ev"]) >= 2], corrupt_pipe, neg_pipe)
    add_neg(pad, corrupt_pad, neg_pad)

    jobs = 4 if tier == "quick" else 8
    f1 = ex.submit(validate_chunked, "CollateTrace", "CollateTrace_obs.cfg", pipe + neg_pipe, prop + "tvp", jobs)
    f2 = ex.submit(validate_chunked, "CollatePadTrace", "CollatePadTrace_obs.cfg", pad + neg_pad, prop + "tvq", jobs)
    # Desc: conformance of the real runs to the descriptive machines (informative, not a verdict); a seeded sample in
    # the quick tier, everything in the thorough tier
    proto = "v1"
    nd = 600 if tier == "quick" else 10 ** 9
    dpipe = pipe if len(pipe) <= nd else r.sample(pipe, nd)
    dpad = pad if len(pad) <= nd else r.sample(pad, nd)
    f3 = ex.submit(desc_conform, "CollateTrace", f"CollateTrace_desc_{proto}.cfg", dpipe, prop + "dsp", 2 if tier == "quick" else 6)
    f4 = ex.submit(desc_conform, "CollatePadTrace", f"CollatePadTrace_desc_{proto}.cfg", dpad, prop + "dsq", 2 if tier == "quick" else 6)
    finish_model_checks(v, mc_futs)
    acc1, rej1, st1 = f1.result()
    acc2, rej2, st2 = f2.result()
    rej = dict(rej1)
    rej.update(rej2)
    # a corrupted twin of an ACCEPTED real trace must be rejected, by the clause the corruption aims at
    n_neg = 0
    for nid, (clause, src) in neg_expect.items():
        if src in rej:
            continue
        n_neg += 1
        if nid not in rej or clause not in rej[nid][1]:
            raise tlc.TLCError(f"vacuity: corrupted trace {nid} (expected to fail {clause}) got {rej.get(nid, 'ACCEPTED')}")
    real_rejected = sum(1 for t in pipe + pad if t["id"] in rej)
    if n_neg < 10 and real_rejected == 0:
        raise tlc.TLCError(f"vacuity: only {n_neg} negative-control traces")
    v.coverage["negative_control_traces_rejected"] = n_neg
    for st in (st1, st2):
        v.coverage["states"] += st["states"]
        v.coverage["transitions"] += st["transitions"]
    traces = pipe + pad
    v.coverage["traces_validated_against_impl"] = len(traces)
    v.coverage["evaluations"] = len(traces)
    v.coverage["pipeline_traces"] = len(pipe)
    v.coverage["padding_traces"] = len(pad)

    for t in traces:
        if t["id"] in rej:
            pos, clauses = rej[t["id"]]
            is_pipe = "order" in t["cfg"]
            key = pipe_key(t["cfg"]) if is_pipe else pad_key(t["cfg"])
            last = t["ev"][-1]
            what = (f"clauses {clauses} fail: real collator answered `{last['a']}`"
                    + (f" ({infos[t['id']]})" if infos.get(t["id"]) else "")
                    + (f"; members saw {[e['lay'] for e in t['ev'][:-1]]}, returned layout {last['lay']}" if is_pipe
                       else ""))
            v.violation(key, what, dict(trace=t, clauses=clauses, info=infos.get(t["id"])))

    # non-trivial: pipeline = at least two members and some member asks for collation and the call returned;
    # padding = a sequence field whose lengths differ inside the batch and the call returned
    keys = set()
    for t in pipe:
        c = t["cfg"]
        if len(c["order"]) >= 2 and any(m != "n" for m in c["order"]) and t["ev"][-1]["a"] == "ret":
            keys.add((tuple(c["order"]), c["rc"], tuple(c["mode"]), c["B"], c["entry"]))
    for t in pad:
        c = t["cfg"]
        varying = any(f["t"] == "seq" and len({c["len"][b][k] for b in range(c["B"])}) > 1 for k, f in enumerate(c["fields"]))
        if varying and t["ev"][0]["a"] == "ret":
            keys.add((pad_key(c), c["B"], str(c["len"])))
    v.coverage["distinct_nontrivial"] = len(keys)
    v.coverage["rule"] = ("pipeline cases = every order of 1..4 members over None/before/after x return_ctx x 12 modes x "
                          "batch sizes (compose), every mode x entry single/wrapper, plus seeded random orders of 5..7 "
                          "members / up to 5 items / batch size up to 8; padding cases = the TLC grid (K<=2, lengths 0..2) "
                          "plus seeded random profiles (K<=4, B<=6, lengths 0..9). Non-trivial: pipeline call with >= 2 "
                          "members, a collation request and an answer; padding call with a sequence field of differing "
                          "lengths and an answer. Distinct by (order, return_ctx, mode, B, entry) resp. (fields, style, "
                          "entry, B, length profile)")
    v.coverage["refused"] = sum(1 for t in traces if t["ev"][-1]["a"] == "refuse")
    v.coverage["refusals_of_orders_with_a_position"] = sum(
        1 for t in pipe if t["ev"][-1]["a"] == "refuse" and acceptable(t["cfg"]["order"]))
    v.coverage["rejected_traces"] = sum(1 for t in traces if t["id"] in rej)

    ok1, s1, t1 = f3.result()
    ok2, s2, t2 = f4.result()
    ex.shutdown()
    v.coverage["states"] += s1 + s2
    v.coverage["transitions"] += t1 + t2
    v.coverage["desc_conform"] = dict(proto=proto, pipeline=f"{len(ok1)}/{len(dpipe)}", padding=f"{len(ok2)}/{len(dpad)}")
    if len(ok1) < len(dpipe) or len(ok2) < len(dpad):
        bad = [t for t in dpipe if t["id"] not in ok1][:2] + [t for t in dpad if t["id"] not in ok2][:2]
        v.notes.append("runs that are not behaviours of the v1 machine (informative): "
                       + "; ".join(pipe_key(t["cfg"]) if "order" in t["cfg"] else pad_key(t["cfg"]) for t in bad))

    for t in ([t for t in pipe if len(t["ev"]) >= 3 and t["cfg"]["rc"]][:1] + [t for t in pipe if t["ev"][-1]["a"] == "refuse"][:1]
              + [t for t in pad if t["cfg"]["style"] == "raw"][:1] + pad[:1]):
        v.sample(t)
    v.assumptions += [
        "ModeWrapper.return_ctx equals the collator's return_ctx (stated by the library's own assertion message); the one "
        "exception exercised is the padding collator fed with ctx-carrying samples and return_ctx=False (style raw), as in "
        "the repository's unit tests",
        "per-sample contexts of one batch have the same key set (contexts produced by one ModeWrapper mode)",
        "probe members are harness code: they keep the layout they receive and add 2^(j-1) to every tensor item",
        "torch.utils.data.default_collate and torch pad_sequence are trusted; TLC 1.8 / CommunityModules Json trusted",
        "an AssertionError/NotImplementedError/ValueError/RuntimeError raised by an assert/raise statement inside "
        "kappadata is a refusal; refusals are accepted only for member orders without a collation position (and, as the "
        "named deviation of DESIGN.md 3.3, for None+ before... with contexts)",
    ]
    v.coverage["exhaustive"] = False
    return v.finish()
