"""Catalogue of the stochastic transforms shipped by kappadata, their containers and ready-made pipelines,
with constructor variants and the kind of input each takes. Used by the RngFlow checks (C07-C09)."""
import numpy as np
import torch
from PIL import Image


def inputs(kind, k=0):
    """deterministic probe inputs; k selects one of several"""
    r = np.random.default_rng(1000 + k)
    if kind == "pil":
        w, h = [(16, 12), (12, 16), (20, 20)][k % 3]
        return Image.fromarray(r.integers(0, 256, size=(h, w, 3), dtype=np.uint8), mode="RGB")
    if kind == "pil32":
        return Image.fromarray(r.integers(0, 256, size=(32, 32, 3), dtype=np.uint8), mode="RGB")
    if kind == "tensor":
        h, w = [(12, 16), (16, 12), (20, 20)][k % 3]
        return torch.from_numpy(r.random((3, h, w), dtype=np.float32))
    if kind == "tensorlong":
        # very elongated images (no crop of the usual aspect-ratio range fits: fallback paths)
        h, w = [(6, 400), (300, 5), (4, 333)][k % 3]
        return torch.from_numpy(r.random((3, h, w), dtype=np.float32))
    if kind == "tensorbig":
        # more than 2**16 elements (code paths that switch algorithm / generator for large inputs)
        return torch.from_numpy(r.random((3, 150, 150), dtype=np.float32))
    if kind == "semsegdom":
        # one category dominates: crops outside the small patch of other categories exceed max_category_ratio and the
        # crop is re-sampled
        x = torch.from_numpy(r.random((3, 20, 24), dtype=np.float32))
        seg = torch.zeros((20, 24), dtype=torch.long)
        seg[2 + k % 3:9 + k % 3, 4:12] = torch.from_numpy(r.integers(1, 4, size=(7, 8))).long()
        return (x, seg)
    if kind == "tensor16":
        return torch.from_numpy(r.random((3, 16, 16), dtype=np.float32))
    if kind == "spec":
        return torch.from_numpy(r.random((1, 24, 10), dtype=np.float32))
    if kind == "patches":
        return torch.from_numpy(r.random((3, 6, 4, 4), dtype=np.float32))
    if kind == "semseg":
        x = torch.from_numpy(r.random((3, 20, 24), dtype=np.float32))
        seg = torch.from_numpy(r.integers(0, 4, size=(20, 24))).long()
        return (x, seg)
    if kind == "semsegpil":
        x = Image.fromarray(r.integers(0, 256, size=(20, 24, 3), dtype=np.uint8), mode="RGB")
        seg = torch.from_numpy(r.integers(0, 4, size=(20, 24))).long()
        return (x, seg)
    raise ValueError(kind)


def fresh_input(kind, k=0):
    x = inputs(kind, k)
    return x


def leaf_catalog():
    """name -> (constructor, input kind). Constructors take no arguments and build a NEW instance each time."""
    import kappadata.transforms as T
    from kappadata.transforms.kd_two_random_crop import KDTwoRandomCrop
    from kappadata.transforms.kd_random_rotation import KDRandomRotation
    from kappadata.transforms.semseg.kd_semseg_random_crop import KDSemsegRandomCrop
    from kappadata.transforms.semseg.kd_semseg_random_horizontal_flip import KDSemsegRandomHorizontalFlip
    from kappadata.transforms.semseg.kd_semseg_random_resize import KDSemsegRandomResize
    from kappadata.transforms.audio.kd_spec_augment import KDSpecAugment
    from kappadata.transforms.audio.kd_roll import KDRoll
    from kappadata.transforms.audio.kd_magnitude_jitter import KDMagnitudeJitter
    C = {}
    C["KDRandomHorizontalFlip"] = (lambda: T.KDRandomHorizontalFlip(p=0.5), "pil")
    C["KDRandomHorizontalFlip.tensor"] = (lambda: T.KDRandomHorizontalFlip(p=0.5), "tensor")
    C["KDRandomCrop"] = (lambda: T.KDRandomCrop(size=8), "pil")
    C["KDRandomCrop.pad"] = (lambda: T.KDRandomCrop(size=10, padding=2, pad_if_needed=True), "tensor")
    C["KDRandomResizedCrop"] = (lambda: T.KDRandomResizedCrop(size=8), "pil")
    C["KDRandomResizedCrop.tensor"] = (lambda: T.KDRandomResizedCrop(size=(6, 8), scale=(0.2, 1.0)), "tensor")
    C["KDRandomResizedCrop.elongated"] = (lambda: T.KDRandomResizedCrop(size=8), "tensorlong")
    C["KDSimpleRandomCrop"] = (lambda: T.KDSimpleRandomCrop(size=8, padding=2), "pil")
    C["KDTwoRandomCrop"] = (lambda: KDTwoRandomCrop(size=8), "pil")
    C["KDRandomErasing"] = (lambda: T.KDRandomErasing(p=0.9), "tensor")
    C["KDRandomErasing.pixelwise"] = (lambda: T.KDRandomErasing(p=0.9, mode="pixelwise", max_count=2), "tensor")
    C["KDRandomErasing.channelwise"] = (lambda: T.KDRandomErasing(p=0.9, mode="channelwise", min_count=1, max_count=3), "tensor")
    C["KDColorJitter"] = (lambda: T.KDColorJitter(brightness=0.4, contrast=0.4, saturation=0.2, hue=0.1), "pil")
    C["KDRandomColorJitter"] = (lambda: T.KDRandomColorJitter(p=0.8, brightness=0.4, contrast=0.4, saturation=0.2, hue=0.1), "pil")
    C["KDGaussianBlurPIL"] = (lambda: T.KDGaussianBlurPIL(sigma=(0.1, 2.0)), "pil")
    C["KDRandomGaussianBlurPIL"] = (lambda: T.KDRandomGaussianBlurPIL(p=0.7, sigma=(0.1, 2.0)), "pil")
    C["KDGaussianBlurTV"] = (lambda: T.KDGaussianBlurTV(kernel_size=3, sigma=(0.1, 2.0)), "pil")
    C["KDRandomGaussianBlurTV"] = (lambda: T.KDRandomGaussianBlurTV(p=0.7, kernel_size=3, sigma=(0.1, 2.0)), "tensor")
    C["KDRandomGrayscale"] = (lambda: T.KDRandomGrayscale(p=0.5), "pil")
    C["KDRandomSolarize"] = (lambda: T.KDRandomSolarize(p=0.5, threshold=128), "pil")
    C["KDRandomRotation"] = (lambda: KDRandomRotation(degrees=30), "pil")
    C["KDRandAugment"] = (lambda: T.KDRandAugment(num_ops=2, magnitude=9, magnitude_std=0.5, fill_color=(124, 116, 104),
                                                  interpolation="bicubic"), "pil32")
    C["KDRandAugmentCustom"] = (lambda: T.KDRandAugmentCustom(num_ops=2, magnitude=9, magnitude_std=0.5,
                                                              fill_color=(124, 116, 104), interpolation="bicubic"), "pil32")
    C["KDAdditiveGaussianNoise"] = (lambda: T.KDAdditiveGaussianNoise(std=0.1), "tensor")
    C["KDAdditiveGaussianNoise.magstd"] = (lambda: T.KDAdditiveGaussianNoise(std=0.1, magnitude=0.5, magnitude_std=0.2), "tensor")
    C["KDAdditiveUniformNoise"] = (lambda: T.KDAdditiveUniformNoise(), "tensor")
    C["KDRandomAdditiveGaussianNoise"] = (lambda: T.KDRandomAdditiveGaussianNoise(p=0.8, std=0.1), "tensor")
    C["KDAdditiveGaussianNoise.big"] = (lambda: T.KDAdditiveGaussianNoise(std=0.1), "tensorbig")
    C["KDAdditiveUniformNoise.big"] = (lambda: T.KDAdditiveUniformNoise(), "tensorbig")
    C["KDThreshold"] = (lambda: T.KDThreshold(threshold=0.5, threshold_std=0.1), "tensor")
    C["KDRandomThreshold"] = (lambda: T.KDRandomThreshold(p=0.8, threshold=0.5, threshold_std=0.1), "tensor")
    C["KDThreeAugment"] = (lambda: T.KDThreeAugment(threshold=128, sigma=(0.1, 2.0)), "pil")
    C["PatchwiseShuffle"] = (lambda: T.PatchwiseShuffle(), "patches")
    C["PatchwiseRandomRotation"] = (lambda: T.PatchwiseRandomRotation(), "patches")
    C["KDSpecAugment"] = (lambda: KDSpecAugment(time_masking=6, frequency_masking=4), "spec")
    C["KDRoll"] = (lambda: KDRoll(), "spec")
    C["KDMagnitudeJitter"] = (lambda: KDMagnitudeJitter(alpha=0.3), "spec")
    C["KDSemsegRandomHorizontalFlip"] = (lambda: KDSemsegRandomHorizontalFlip(p=0.5), "semseg")
    C["KDSemsegRandomCrop"] = (lambda: KDSemsegRandomCrop(size=(8, 10)), "semseg")
    C["KDSemsegRandomCrop.ratio"] = (lambda: KDSemsegRandomCrop(size=(8, 10), max_category_ratio=0.75), "semseg")
    C["KDSemsegRandomCrop.ratio.dominated"] = (lambda: KDSemsegRandomCrop(size=(8, 10), max_category_ratio=0.75), "semsegdom")
    C["KDSemsegRandomResize"] = (lambda: KDSemsegRandomResize(base_size=(24, 20), ratio=(0.5, 2.0)), "semsegpil")
    return C


def pipelines():
    """ready-made pipelines"""
    import kappadata.common.transforms as CT
    P = {}
    P["BYOLTransform0"] = (lambda: CT.BYOLTransform0(size=8), "pil32")
    P["BYOLTransform1"] = (lambda: CT.BYOLTransform1(size=8), "pil32")
    P["BYOLTransform"] = (lambda: CT.BYOLTransform(size=8, gaussian_blur_p=0.5, solarize_p=0.2), "pil32")
    P["BYOLTransform.norm"] = (lambda: CT.BYOLTransform(size=8, gaussian_blur_p=0.5, solarize_p=0.2, norm="image_net"), "pil32")
    P["ImagenetMinaugTransform"] = (lambda: CT.ImagenetMinaugTransform(size=8), "pil32")
    P["MAEFinetuneTransform"] = (lambda: CT.MAEFinetuneTransform(), "pil32")
    from kappadata.common.transforms.mugs_transforms import MUGSStrongGlobalTransform, MUGSStrongLocalTransform
    P["MUGSStrongGlobalTransform"] = (lambda: MUGSStrongGlobalTransform(size=8), "pil32")
    P["MUGSStrongLocalTransform"] = (lambda: MUGSStrongLocalTransform(size=8), "pil32")
    return P


def containers():
    """name -> (function(make_child) -> transform, input kinds of the child it accepts)"""
    import kappadata.transforms as T
    from kappadata.transforms.base.kd_scheduled_transform import KDScheduledTransform
    K = {}
    K["compose"] = (lambda mk: T.KDComposeTransform([mk()]), None)
    K["compose2"] = (lambda mk: T.KDComposeTransform([mk(), T.KDIdentityTransform()]), None)
    K["randomapply"] = (lambda mk: T.KDRandomApply(transform=mk(), p=0.7), None)
    K["scheduled"] = (lambda mk: KDScheduledTransform(mk()), None)
    K["patchwise"] = (lambda mk: T.PatchwiseTransform(patch_size=8, transform=mk()), ("tensor16",))
    return K
