"""Batch trace validation: many recorded traces per JVM, verdicts collected in TLC registers.

Contract with the TLA+ trace module <Mod>:
  * reads IOEnv.TRACE_FILE = {"traces": [{"id": n, ...}, ...]}
  * POSTCONDITION prints  <<"ACCEPTED", {ids}>>  and  <<"REJECTED", {<<id, position, {clause names}>>}>>
  * every trace ends up in exactly one of the two sets (checked here: verdicts are total)
"""
import json
import os
from concurrent.futures import ThreadPoolExecutor

from . import tlc


def write_cfg(name, body):
    path = os.path.join(tlc.SPECS, name)
    with open(path, "w") as f:
        f.write(body)
    return name


STD_CFG = "SPECIFICATION TSpec\nCONSTRAINT Constraint\nPOSTCONDITION Report\nCHECK_DEADLOCK FALSE\n"


def validate(module, cfg, traces, name, jobs=8, timeout=3000, weight=None):
    """returns (accepted ids, {id: (position, [clauses])}, stats)"""
    os.makedirs(tlc.WORK, exist_ok=True)
    if not traces:
        return set(), {}, dict(states=0, transitions=0)
    weight = weight or (lambda t: len(json.dumps(t)))
    order = sorted(traces, key=lambda t: -weight(t))
    chunks = [order[i::jobs] for i in range(jobs)]
    chunks = [c for c in chunks if c]

    def one(i_ch):
        i, ch = i_ch
        path = os.path.join(tlc.WORK, f"{name}-{os.getpid()}-{i}.json")
        with open(path, "w") as f:
            json.dump(dict(traces=ch), f)
        try:
            r = tlc.run_tlc(module, cfg, name=f"{name}{i}", workers=1, env=dict(TRACE_FILE=path), timeout=timeout)
        finally:
            os.remove(path)
        acc = tlc.tagged(r.prints, "ACCEPTED")
        rej = tlc.tagged(r.prints, "REJECTED")
        if len(acc) != 1 or len(rej) != 1:
            raise tlc.TLCError(f"{module}: verdict lines missing\n{r.stdout[-3000:]}")
        return set(acc[0]), {x[0]: (x[1], sorted(x[2])) for x in rej[0]}, r

    acc, rej, st, tr = set(), {}, 0, 0
    with ThreadPoolExecutor(max_workers=jobs) as ex:
        for a, rj, r in ex.map(one, list(enumerate(chunks))):
            acc |= a
            rej.update(rj)
            st += r.distinct_states
            tr += r.states_generated
    ids = {t["id"] for t in traces}
    acc -= set(rej)
    if acc | set(rej) != ids:
        missing = sorted(ids - acc - set(rej))[:5]
        raise tlc.TLCError(f"{module}: verdicts not total: {len(ids)} traces, {len(acc)} accepted, {len(rej)} rejected, "
                           f"e.g. missing {missing}")
    return acc, rej, dict(states=st, transitions=tr)
