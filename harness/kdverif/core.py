"""Shared plumbing for all checks: repository import, evidence, known findings, verdict reporting."""
import json
import os
import sys
import time

VERIF = os.path.dirname(os.path.dirname(os.path.dirname(os.path.abspath(__file__))))
REPO = os.environ.get("VERIF_REPO", "/repo")
GUARD = "KAPPADATA_VERIF"


def use_repo():
    """Put the repository under test first on sys.path (never a cached copy)."""
    os.environ.setdefault(GUARD, "1")
    if REPO not in sys.path:
        sys.path.insert(0, REPO)
    import kappadata  # noqa
    try:
        import torch
        torch.set_num_threads(1)
    except Exception:
        pass
    assert os.path.realpath(os.path.dirname(os.path.dirname(kappadata.__file__))) == os.path.realpath(REPO), \
        f"kappadata imported from {kappadata.__file__}, expected under {REPO}"


def seed_from_env(default=0):
    try:
        return int(os.environ.get("VERIF_SEED", default))
    except ValueError:
        return default


def load_findings():
    path = os.path.join(VERIF, "known_findings.jsonl")
    known, fixed = {}, []
    if os.path.exists(path):
        for ln in open(path):
            ln = ln.strip()
            if not ln or ln.startswith("#"):
                continue
            if ln.startswith("fixed:"):
                fixed.append(ln)
                continue
            d = json.loads(ln)
            known[(d["property"], d["key"])] = d["what"]
    return known, fixed


class Verdict:
    """Collects violations (keyed), known-finding hits and evidence; prints the protocol lines; decides exit code."""

    def __init__(self, prop, tier, seed, level="model_checking"):
        self.prop, self.tier, self.seed, self.level = prop, tier, seed, level
        self.t0 = time.time()
        self.violations = []  # (key, what, replay_payload)
        self.coverage = dict(states=0, transitions=0, traces_validated_against_impl=0, samples=[], evaluations=0,
                             distinct_nontrivial=0, rule="")
        self.assumptions = []
        self.notes = []
        self.known, _ = load_findings()
        self.known_hits = {}

    # ---- accumulation
    def add_tlc(self, r, label=None):
        self.coverage["states"] += r.distinct_states
        self.coverage["transitions"] += r.states_generated
        runs = self.coverage.setdefault("tlc_runs", [])
        d = r.summary()
        d["label"] = label
        if r.coverage:
            d["actions"] = {k: v[1] for k, v in sorted(r.coverage.items())}
        runs.append(d)

    def sample(self, s, cap=4):
        if len(self.coverage["samples"]) < cap:
            self.coverage["samples"].append(s)

    def violation(self, key, what, payload=None):
        """key: canonical identity of the failing input/schedule (used for known findings)."""
        if (self.prop, key) in self.known:
            self.known_hits[key] = self.known[(self.prop, key)]
            return False
        self.violations.append((key, what, payload))
        return True

    # ---- finish
    def finish(self):
        os.makedirs(os.path.join(VERIF, "evidence"), exist_ok=True)
        rdir = os.path.join(VERIF, "replays", self.prop)
        for key, what in sorted(self.known_hits.items()):
            print(f"KNOWN-FINDING: property={self.prop} {key}: {what}")
        seen = set()
        for key, what, payload in self.violations:
            if key in seen:
                continue
            seen.add(key)
            if len(seen) > 8:
                print(f"  ... and more violations of {self.prop} (total recorded: {len(self.violations)})")
                break
            os.makedirs(rdir, exist_ok=True)
            safe = "".join(c if c.isalnum() or c in "-_.=" else "_" for c in key)[:120]
            path = os.path.join(rdir, safe + ".json")
            with open(path, "w") as f:
                json.dump(dict(property=self.prop, key=key, what=what, payload=payload), f, indent=1, default=str)
            print(f"VIOLATION property={self.prop} replay={path}")
            print(f"  {key}: {what}"[:600])
        cov = dict(self.coverage)
        cov["exhaustive"] = bool(cov.get("exhaustive", False))
        ev = dict(property_id=self.prop, tier=self.tier, seed=self.seed, level=self.level, coverage=cov,
                  assumptions=self.assumptions, wall_s=round(time.time() - self.t0, 2),
                  violations=len(seen), known_findings=sorted(self.known_hits), notes=self.notes)
        # extension checks (ids "X..") are not listed properties: their evidence goes to evidence/extra/
        edir = os.path.join(VERIF, "evidence", "extra") if self.prop.startswith("X") else os.path.join(VERIF, "evidence")
        os.makedirs(edir, exist_ok=True)
        with open(os.path.join(edir, f"{self.prop}.json"), "w") as f:
            json.dump(ev, f, indent=1, default=str)
        rk = os.environ.get("KDVERIF_REPLAY_KEY")
        if rk is not None:
            hit = any(k == rk for k, _, _ in self.violations)
            print(f"REPLAY {'REPRODUCED' if hit else 'NOT REPRODUCED'}: {rk}")
        st = "FAIL" if seen else "ok"
        print(f"[{self.prop}] {st} tier={self.tier} seed={self.seed} states={cov['states']} "
              f"traces={cov['traces_validated_against_impl']} evals={cov['evaluations']} "
              f"nontrivial={cov['distinct_nontrivial']} wall={ev['wall_s']}s")
        return 1 if seen else 0
