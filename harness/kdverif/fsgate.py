"""Step-gated execution of a function in a forked child: the child stops BEFORE every file-system operation of
interest (mutating operations reported by the audit hook, directory listings, stat/lstat of watched paths, the payload
write of a file copy) and waits on a pipe for the parent's decision: b"g" = go (perform it and run on to the next gate),
b"k" = die here (os._exit, no cleanup - a real process death before the operation).

The parent side (`Child`) is a plain object with `pending` (the request the child is blocked at), `go()`, `kill()`.
Nothing here depends on wall-clock time: a child is always either blocked at a gate or finished, and the parent always
waits for the next message of the child it released before doing anything else.
"""
import json
import os
import select
import signal
import sys

MUT_EVENTS = {"os.mkdir", "os.remove", "os.rmdir", "os.rename", "os.utime", "os.chmod", "os.truncate", "os.link",
              "os.symlink", "os.chown", "os.replace"}
WRITE_FLAGS = os.O_WRONLY | os.O_RDWR | os.O_CREAT | os.O_TRUNC | os.O_APPEND


def _is_write_open(args):
    mode, flags = (tuple(args) + (None, None))[1:3]
    if isinstance(mode, str):
        return any(c in mode for c in "wax+")
    if isinstance(flags, int):
        return bool(flags & WRITE_FLAGS)
    return False


def _abspath(p, dir_fd=None):
    """absolute path of an operation's target (resolving dir_fd / bare fds through /proc)"""
    try:
        if isinstance(p, int):
            return os.readlink(f"/proc/self/fd/{p}")
        p = os.fspath(p)
        if isinstance(p, bytes):
            p = p.decode()
        if dir_fd is not None and not os.path.isabs(p):
            return os.path.join(os.readlink(f"/proc/self/fd/{dir_fd}"), p)
        return os.path.abspath(p)
    except Exception:  # noqa
        return str(p)


class Child:
    """parent-side handle of a gated child"""

    def __init__(self, fn, watch_root, gate_reads=True, sort_key=None, deadline=60.0):
        self.deadline = deadline
        r1, w1 = os.pipe()   # child -> parent (requests, outcome)
        r2, w2 = os.pipe()   # parent -> child (decisions)
        pid = os.fork()
        if pid == 0:
            os.close(r1)
            os.close(w2)
            try:
                os.setsid()
                _child_main(fn, watch_root, gate_reads, sort_key, w1, r2)
            finally:
                os._exit(99)
        os.close(w1)
        os.close(r2)
        self.pid, self.r, self.w = pid, r1, w2
        self.buf = b""
        self.pending = None    # ["req", kind, path, path2] the child is blocked at
        self.outcome = None    # ("ret", res) | ("exc", type, text) | ("crash",) | ("died", code) | ("diverge",)
        self.at = None

    # the child runs from the fork up to its first gate immediately (no file-system effect before the first gate)
    def wait(self):
        """read until the child blocks at a gate or reports its outcome"""
        self.pending = None
        while True:
            while b"\n" in self.buf:
                ln, self.buf = self.buf.split(b"\n", 1)
                d = json.loads(ln.decode())
                if d[0] == "req":
                    self.pending = d
                    return
                if d[0] == "at":
                    self.at = d[1]     # where the operation just granted really took place
                    continue
                self.outcome = tuple(d)
                self._reap()
                return
            rl, _, _ = select.select([self.r], [], [], self.deadline)
            if not rl:
                self.outcome = ("diverge",)
                self._reap(kill=True)
                return
            b = os.read(self.r, 65536)
            if not b:
                self.outcome = ("died", self._reap())
                return
            self.buf += b

    def go(self):
        os.write(self.w, b"g")
        self.wait()

    def kill(self):
        """the process dies before the operation it is blocked at"""
        os.write(self.w, b"k")
        self.pending = None
        self.outcome = ("crash",)
        self._reap()

    def _reap(self, kill=False):
        if self.pid is None:
            return None
        if kill:
            try:
                os.killpg(self.pid, signal.SIGKILL)
            except (ProcessLookupError, PermissionError):
                pass
        try:
            _, status = os.waitpid(self.pid, 0)
            code = os.waitstatus_to_exitcode(status)
        except ChildProcessError:
            code = None
        for fd in (self.r, self.w):
            try:
                os.close(fd)
            except OSError:
                pass
        self.pid = None
        return code

    def close(self):
        if self.pid is not None:
            self._reap(kill=True)


def _child_main(fn, watch_root, gate_reads, sort_key, w, r):
    watch_root = os.path.abspath(watch_root)
    state = dict(on=False, inside=False)

    def emit(obj):
        os.write(w, (json.dumps(obj) + "\n").encode())

    def watched(ap):
        return ap == watch_root or ap.startswith(watch_root + os.sep)

    def point(kind, p1, p2="", resolve=None):
        if not state["on"] or state["inside"]:
            return
        # consecutive identical reads (stat of the same path) and utime + chmod of the same path are one gate
        if kind in ("utime", "chmod", "chown"):
            kind = "touch"
        if kind in ("stat", "touch") and state.get("last") == (kind, p1):
            return
        state["last"] = (kind, p1)
        state["inside"] = True
        try:
            emit(["req", kind, p1, p2])
            b = os.read(r, 1)
            if b != b"g":
                os._exit(137)
            # descriptor-relative operations: the object may have been renamed while this process was waiting
            emit(["at", resolve() if resolve is not None else p1])
        finally:
            state["inside"] = False

    def hook(event, args):
        if not state["on"] or state["inside"]:
            return
        if event == "open":
            if _is_write_open(args) and not isinstance(args[0], int):
                ap = _abspath(args[0])
                if watched(ap):
                    point("wopen", ap)
        elif event in MUT_EVENTS:
            dir_fd = None
            if event in ("os.remove", "os.rmdir", "os.mkdir", "os.chmod", "os.utime") and len(args) > 1:
                dir_fd = args[-1] if isinstance(args[-1], int) and args[-1] >= 0 else None
            if event == "os.mkdir":
                dir_fd = args[2] if len(args) > 2 and isinstance(args[2], int) and args[2] >= 0 else None
            ap = _abspath(args[0], dir_fd)
            res = (lambda a0=args[0], df=dir_fd: _abspath(a0, df)) if (dir_fd is not None or isinstance(args[0], int)) else None
            p2 = ""
            if event in ("os.rename", "os.replace", "os.link", "os.symlink") and len(args) > 1:
                p2 = _abspath(args[1])
            if watched(ap) or (p2 and watched(p2)):
                point(event.split(".", 1)[1], ap, p2, res)
        elif event in ("os.scandir", "os.listdir"):
            if gate_reads:
                ap = _abspath(args[0]) if args and args[0] is not None else os.getcwd()
                if watched(ap):
                    a0 = args[0] if args else None
                    point("list", ap, "", (lambda: _abspath(a0)) if isinstance(a0, int) else None)
        elif event == "fcntl.flock":
            # every attempt to take / release an advisory lock (repaired protocols) is a gate
            ap = _abspath(args[0]) if isinstance(args[0], int) else str(args[0])
            if watched(ap):
                point("flock" if (len(args) > 1 and not (args[1] & 8)) else "funlock", ap)    # 8 = LOCK_UN
        elif event == "kdverif.fill":
            ap = _abspath(args[0])
            if watched(ap):
                point("fill", ap)

    import shutil

    def copyfileobj(fsrc, fdst, length=0):
        # the payload of a file is written in one piece, after a gate of its own ("fill"): between the creating /
        # truncating open and the payload the file exists and is empty
        data = fsrc.read()
        sys.audit("kdverif.fill", getattr(fdst, "name", "?"))
        fdst.write(data)
        if hasattr(fdst, "flush"):
            fdst.flush()

    shutil.copyfileobj = copyfileobj

    def nofast(*a, **k):
        raise shutil._GiveupOnFastCopy("kdverif")

    for nm in ("_fastcopy_sendfile", "_fastcopy_fcopyfile", "_fastcopy_copy_file_range"):
        if hasattr(shutil, nm):
            setattr(shutil, nm, nofast)
    shutil._USE_CP_SENDFILE = False
    if hasattr(shutil, "_USE_CP_COPY_FILE_RANGE"):
        shutil._USE_CP_COPY_FILE_RANGE = False

    # a poll loop (time.sleep) is a gate of its own and takes no time: the scheduler decides when the waiting
    # process looks again
    import time as _time

    def g_sleep(secs):
        point("sleep", "")

    _time.sleep = g_sleep

    if gate_reads:
        real_stat, real_lstat = os.stat, os.lstat

        def g_stat(path, *a, **k):
            if state["on"] and not state["inside"] and not isinstance(path, int):
                ap = _abspath(path, k.get("dir_fd"))
                if watched(ap):
                    point("stat", ap)
            return real_stat(path, *a, **k)

        def g_lstat(path, *a, **k):
            if state["on"] and not state["inside"] and not isinstance(path, int):
                ap = _abspath(path, k.get("dir_fd"))
                if watched(ap):
                    point("stat", ap)
            return real_lstat(path, *a, **k)

        os.stat, os.lstat = g_stat, g_lstat

    if sort_key is not None:
        real_scandir, real_listdir = os.scandir, os.listdir

        class _Scan:
            def __init__(self, it):
                self.it = it
                self.entries = sorted(list(it), key=lambda e: sort_key(e.name))

            def __iter__(self):
                return iter(self.entries)

            def __next__(self):
                raise StopIteration

            def __enter__(self):
                return self

            def __exit__(self, *a):
                self.it.close()

            def close(self):
                self.it.close()

        os.scandir = lambda *a, **k: _Scan(real_scandir(*a, **k))
        os.listdir = lambda *a, **k: sorted(real_listdir(*a, **k), key=sort_key)

    sys.addaudithook(hook)
    state["on"] = True
    try:
        res = fn()
        state["on"] = False
        emit(["ret", res])
        os._exit(0)
    except BaseException as e:  # noqa
        state["on"] = False
        import traceback
        emit(["exc", type(e).__name__, getattr(e, "errno", None) or 0, traceback.format_exc()[-1500:]])
        os._exit(1)
