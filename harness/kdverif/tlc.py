"""Thin runner around TLC: runs a spec/config, parses counts, coverage, PrintT payloads and violations.

Every run gets its own metadir under /verif/.work/<name>-<pid>/ which is removed afterwards.
"""
import json
import os
import re
import shutil
import subprocess
import time

VERIF = os.path.dirname(os.path.dirname(os.path.dirname(os.path.abspath(__file__))))
SPECS = os.path.join(VERIF, "specs")
WORK = os.path.join(VERIF, ".work")
JAR = "/opt/veriftools/tla/tla2tools.jar"
DEPS = "/opt/veriftools/tla/CommunityModules-deps.jar"


class TLCError(RuntimeError):
    """machinery failure (exit 2), never a property verdict"""


class TLCResult:
    def __init__(self):
        self.returncode = None
        self.stdout = ""
        self.states_generated = 0
        self.distinct_states = 0
        self.violated = []  # names of violated invariants / properties
        self.error_lines = []
        self.prints = []  # raw TLA+ values printed with PrintT (strings)
        self.coverage = {}  # action name -> (distinct, total)
        self.wall_s = 0.0
        self.cex = []  # counterexample states as text blocks
        self.ok = False

    def summary(self):
        return dict(states=self.distinct_states, transitions=self.states_generated, wall_s=round(self.wall_s, 2))


_RE_COUNTS = re.compile(r"^(\d+) states generated, (\d+) distinct states found", re.M)
_RE_INV = re.compile(r"^Error: Invariant (\S+) is violated", re.M)
_RE_PROP = re.compile(r"^Error: (?:Action|Temporal) propert(?:y|ies) (?:(\S+) )?(?:is|were) violated", re.M)
_RE_COV = re.compile(r"^<(\w+) line (\d+), col (\d+) to line (\d+), col (\d+) of module (\w+)(?: \([\d ]+\))?>: (\d+):(\d+)", re.M)


def run_tlc(spec, cfg, name=None, workers=16, env=None, timeout=3600, coverage=False, simulate=None, depth=None,
            deadlock=False, extra=None, seed=None, heap="8g", dfs=False):
    """Run TLC on specs/<spec>.tla with specs/<cfg>. Returns TLCResult. Raises TLCError on machinery failure."""
    name = name or spec
    os.makedirs(WORK, exist_ok=True)
    metadir = os.path.join(WORK, f"{name}-{os.getpid()}-{int(time.time() * 1000) % 100000}")
    # TLC and SANY leave scratch directories in java.io.tmpdir: keep them inside the run's own work area
    jtmp = metadir + "-jtmp"
    os.makedirs(jtmp, exist_ok=True)
    cmd = ["java", "-XX:+UseParallelGC", f"-Xmx{heap}", f"-Djava.io.tmpdir={jtmp}"]
    if dfs:
        cmd.append("-Dtlc2.tool.queue.IStateQueue=StateDeque")
    cmd += ["-cp", f"{JAR}:{DEPS}", "tlc2.TLC", "-metadir", metadir, "-noGenerateSpecTE",
            "-workers", str(workers), "-config", cfg]
    if not deadlock:
        cmd.append("-deadlock")
    if coverage:
        cmd += ["-coverage", "1"]
    if simulate:
        cmd += ["-simulate", simulate]
    if depth:
        cmd += ["-depth", str(depth)]
    if seed is not None:
        cmd += ["-seed", str(seed)]
    if extra:
        cmd += list(extra)
    cmd.append(spec)
    full_env = dict(os.environ)
    if env:
        full_env.update({k: str(v) for k, v in env.items()})
    t0 = time.time()
    try:
        p = subprocess.run(cmd, cwd=SPECS, env=full_env, stdout=subprocess.PIPE, stderr=subprocess.STDOUT,
                           timeout=timeout, text=True)
        out, rc = p.stdout, p.returncode
    except subprocess.TimeoutExpired as e:
        out = (e.stdout or b"").decode() if isinstance(e.stdout, bytes) else (e.stdout or "")
        shutil.rmtree(metadir, ignore_errors=True)
        subprocess.run(["pkill", "-f", metadir], check=False)
        raise TLCError(f"TLC timed out after {timeout}s on {spec}/{cfg}\n{out[-2000:]}")
    finally:
        shutil.rmtree(metadir, ignore_errors=True)
        shutil.rmtree(jtmp, ignore_errors=True)
    r = TLCResult()
    r.returncode, r.stdout, r.wall_s = rc, out, time.time() - t0
    m = None
    for m in _RE_COUNTS.finditer(out):
        pass
    if m:
        r.states_generated, r.distinct_states = int(m.group(1)), int(m.group(2))
    r.violated = [x.group(1) for x in _RE_INV.finditer(out)]
    for x in _RE_PROP.finditer(out):
        r.violated.append(x.group(1) or "temporal")
    if "Error: Deadlock reached" in out:
        r.violated.append("Deadlock")
    r.error_lines = [ln for ln in out.splitlines() if ln.startswith("Error:")]
    r.prints = parse_prints(out)
    for x in _RE_COV.finditer(out):
        nm = x.group(1)
        d, t = int(x.group(7)), int(x.group(8))
        od, ot = r.coverage.get(nm, (0, 0))
        r.coverage[nm] = (od + d, ot + t)
    r.ok = (rc == 0) and not r.violated and not r.error_lines
    if r.error_lines and not r.violated:
        # an error that is not a property violation: machinery failure
        bad = [ln for ln in r.error_lines if "violated" not in ln and "behavior up to this point" not in ln.lower()]
        if bad:
            raise TLCError(f"TLC failed on {spec}/{cfg}:\n" + "\n".join(bad[:10]) + "\n" + out[-3000:])
    if rc != 0 and not r.violated:
        raise TLCError(f"TLC exit {rc} on {spec}/{cfg}\n{out[-3000:]}")
    if r.violated:
        r.cex = out[out.find("Error:"):][:20000]
    return r


def parse_prints(out):
    """Collect values printed by PrintT(<<"TAG", ...>>): returns list of strings (the raw TLA+ tuple text).
    Multi-line values are joined by bracket matching (depth tracked incrementally: linear in the output size)."""
    res = []
    lines = out.splitlines()
    i = 0
    while i < len(lines):
        ln = lines[i]
        if ln.startswith('<<"') or ln.startswith('<< "'):
            first = '<<"' + ln[4:] if ln.startswith('<< "') else ln
            parts = [first]
            depth = _depth(first)
            while depth > 0 and i + 1 < len(lines):
                i += 1
                nxt = lines[i].strip()
                parts.append(nxt)
                depth += _depth(nxt)
            res.append(" ".join(parts))
        i += 1
    return res


def _depth(s):
    d = 0
    instr = False
    j = 0
    while j < len(s):
        c = s[j]
        if instr:
            if c == "\\":
                j += 1
            elif c == '"':
                instr = False
        else:
            if c == '"':
                instr = True
            elif s.startswith("<<", j):
                d += 1
                j += 1
            elif s.startswith(">>", j):
                d -= 1
                j += 1
            elif c in "[({":
                d += 1
            elif c in "])}":
                d -= 1
        j += 1
    return d


def tagged(prints, tag):
    """Return payloads of PrintT(<<tag, payload>>) lines where payload is a JSON string produced by ToJson,
    or a raw TLA+ value text otherwise."""
    res = []
    pre = f'<<"{tag}",'
    for p in prints:
        if p.startswith(pre):
            body = p[len(pre):].strip()
            assert body.endswith(">>"), p[:200]
            body = body[:-2].strip()
            if body.startswith('"'):
                # TLA+ string literal holding JSON: unescape
                s = body[1:-1].replace('\\"', '"').replace("\\\\", "\\")
                try:
                    res.append(json.loads(s))
                except json.JSONDecodeError:
                    res.append(s)
            else:
                res.append(parse_tla_value(body))
    return res


def parse_tla_value(s):
    """Parse a printed TLA+ value made of ints, strings, booleans, sets, tuples, records, functions (a :> b @@ ...)."""
    v, pos = _pv(s, 0)
    return v


def _ws(s, i):
    while i < len(s) and s[i].isspace():
        i += 1
    return i


def _pv(s, i):
    i = _ws(s, i)
    if s.startswith("<<", i):
        i += 2
        items = []
        i = _ws(s, i)
        if s.startswith(">>", i):
            return items, i + 2
        while True:
            v, i = _pv(s, i)
            items.append(v)
            i = _ws(s, i)
            if s.startswith(">>", i):
                return items, i + 2
            assert s[i] == ",", (s[i - 20:i + 20])
            i += 1
    if s[i] == "{":
        i += 1
        items = []
        i = _ws(s, i)
        if s[i] == "}":
            return items, i + 1
        while True:
            v, i = _pv(s, i)
            items.append(v)
            i = _ws(s, i)
            if s[i] == "}":
                return items, i + 1
            assert s[i] == ",", (s[max(0, i - 20):i + 20])
            i += 1
    if s[i] == "[":
        i += 1
        rec = {}
        while True:
            i = _ws(s, i)
            j = i
            while s[j].isalnum() or s[j] == "_":
                j += 1
            key = s[i:j]
            i = _ws(s, j)
            assert s.startswith("|->", i), s[max(0, i - 20):i + 20]
            v, i = _pv(s, i + 3)
            rec[key] = v
            i = _ws(s, i)
            if s[i] == "]":
                return rec, i + 1
            assert s[i] == ",", s[max(0, i - 20):i + 20]
            i += 1
    if s[i] == "(":
        # function printed as (a :> b @@ c :> d)
        i += 1
        fn = {}
        while True:
            k, i = _pv(s, i)
            i = _ws(s, i)
            assert s.startswith(":>", i)
            v, i = _pv(s, i + 2)
            fn[k if not isinstance(k, list) else tuple(k)] = v
            i = _ws(s, i)
            if s[i] == ")":
                return fn, i + 1
            assert s.startswith("@@", i)
            i += 2
    if s[i] == '"':
        j = i + 1
        buf = []
        while s[j] != '"':
            if s[j] == "\\":
                j += 1
            buf.append(s[j])
            j += 1
        return "".join(buf), j + 1
    if s.startswith("TRUE", i):
        return True, i + 4
    if s.startswith("FALSE", i):
        return False, i + 5
    m = re.match(r"-?\d+", s[i:])
    if m:
        return int(m.group(0)), i + len(m.group(0))
    m = re.match(r"[A-Za-z_]\w*", s[i:])
    if m:
        return m.group(0), i + len(m.group(0))
    raise ValueError(f"cannot parse TLA+ value at {i}: {s[i:i + 40]!r}")


def sany(module):
    p = subprocess.run(["java", "-cp", f"{JAR}:{DEPS}", "tla2sany.SANY", module], cwd=SPECS, stdout=subprocess.PIPE,
                       stderr=subprocess.STDOUT, text=True)
    ok = p.returncode == 0 and "Semantic errors" not in p.stdout and "Parse Error" not in p.stdout \
        and "Fatal errors" not in p.stdout and "Could not parse" not in p.stdout
    return ok, p.stdout
