"""Run a function in a forked child under an audit hook that reports every mutating file-system operation
*before* it executes and can kill the process (os._exit, no cleanup) at the k-th one.

Also splits file payload copies (shutil.copyfileobj, used by shutil.copyfile's fallback and by zipfile) into two
chunks with a kill point in between, so that a half-written file is a reachable crash state.
"""
import json
import os
import sys
import time

MUT_EVENTS = {"os.mkdir", "os.remove", "os.rmdir", "os.rename", "os.utime", "os.chmod", "os.truncate", "os.link",
              "os.symlink", "os.chown", "os.replace"}
WRITE_FLAGS = os.O_WRONLY | os.O_RDWR | os.O_CREAT | os.O_TRUNC | os.O_APPEND


def _is_write_open(args):
    mode, flags = (args + (None, None))[1:3]
    if isinstance(mode, str):
        return any(c in mode for c in "wax+")
    if isinstance(flags, int):
        return bool(flags & WRITE_FLAGS)
    return False


def run_attempt(fn, kill_at=None, sorted_scandir=None, chunked=True):
    """fn: zero-arg callable returning a JSON-able result. Returns (events, outcome) where events is the list of
    [kind, path, path2] of mutating operations in order (the last one is the one the process died *before* when
    outcome == ('crash', k)) and outcome is ('ret', result) | ('exc', type name, text) | ('crash', k)."""
    r, w = os.pipe()
    pid = os.fork()
    if pid == 0:
        os.close(r)
        os.setsid()  # own process group: the parent removes the call's worker processes with it
        try:
            _child(fn, kill_at, sorted_scandir, chunked, w)
        finally:
            os._exit(99)
    os.close(w)
    buf = b""
    events, outcome = [], None
    # read until the child reported its outcome (worker processes it started may keep the pipe open)
    while outcome is None:
        b = os.read(r, 65536)
        if not b:
            break
        buf += b
        while b"\n" in buf:
            ln, buf = buf.split(b"\n", 1)
            d = json.loads(ln.decode())
            if d[0] == "op":
                events.append(d[1:])
            else:
                outcome = tuple(d)
    os.close(r)
    import signal
    if outcome is not None and outcome[0] != "crash":
        # give a normally finishing child a moment to exit by itself, then remove its whole process group
        # (joblib workers of the call would otherwise linger)
        for _ in range(200):
            done, status = os.waitpid(pid, os.WNOHANG)
            if done:
                break
            time.sleep(0.005)
        else:
            status = None
    else:
        status = None
    try:
        os.killpg(pid, signal.SIGKILL)
    except (ProcessLookupError, PermissionError):
        pass
    if status is None:
        _, status = os.waitpid(pid, 0)
    code = os.waitstatus_to_exitcode(status)
    if outcome is None:
        outcome = ("died", code)
    return events, outcome


def _child(fn, kill_at, sorted_scandir, chunked, w):
    state = dict(n=0, on=False)

    def emit(obj):
        os.write(w, (json.dumps(obj) + "\n").encode())

    def point(kind, p1, p2=""):
        if not state["on"]:
            return
        state["n"] += 1
        emit(["op", kind, str(p1), str(p2)])
        if kill_at is not None and state["n"] == kill_at:
            emit(["crash", kill_at])
            os._exit(137)

    def hook(event, args):
        if not state["on"]:
            return
        if event == "open":
            if _is_write_open(args):
                point("wopen", args[0])
        elif event in MUT_EVENTS:
            p2 = ""
            if event in ("os.rename", "os.replace", "os.link", "os.symlink") and len(args) > 1:
                p2 = args[1]
            kind = event.split(".", 1)[1]
            if kind == "mkdir":
                # the audit event fires before the operation: pathlib's mkdir(parents=True) first tries the leaf and
                # fails when the parent is missing - report that as an operation without effect
                par = os.path.dirname(os.path.abspath(str(args[0])))
                if not os.path.isdir(par):
                    kind = "mkdir_noparent"
            point(kind, args[0], p2)
        elif event == "kdverif.chunk":
            point("chunk", args[0])

    import shutil
    if chunked:
        def copyfileobj(fsrc, fdst, length=0):
            data = fsrc.read()
            half = len(data) // 2
            fdst.write(data[:half])
            if hasattr(fdst, "flush"):
                fdst.flush()
            sys.audit("kdverif.chunk", getattr(fdst, "name", "?"))
            fdst.write(data[half:])

        shutil.copyfileobj = copyfileobj

        def nofast(*a, **k):
            raise shutil._GiveupOnFastCopy("kdverif")

        for nm in ("_fastcopy_sendfile", "_fastcopy_fcopyfile"):
            if hasattr(shutil, nm):
                setattr(shutil, nm, nofast)
        shutil._USE_CP_SENDFILE = False
        if hasattr(shutil, "_USE_CP_COPY_FILE_RANGE"):
            shutil._USE_CP_COPY_FILE_RANGE = False
    if sorted_scandir is not None:
        # force a directory order (the order of rmtree / listdir is unspecified): key function on names
        real_scandir, real_listdir = os.scandir, os.listdir

        class _Scan:
            def __init__(self, it):
                self.it = it
                self.entries = sorted(list(it), key=lambda e: sorted_scandir(e.name))

            def __iter__(self):
                return iter(self.entries)

            def __enter__(self):
                return self

            def __exit__(self, *a):
                self.it.close()

            def close(self):
                self.it.close()

        os.scandir = lambda *a, **k: _Scan(real_scandir(*a, **k))
        os.listdir = lambda *a, **k: sorted(real_listdir(*a, **k), key=sorted_scandir)
    sys.addaudithook(hook)
    state["on"] = True
    try:
        res = fn()
        state["on"] = False
        emit(["ret", res])
        os._exit(0)
    except BaseException as e:  # noqa
        state["on"] = False
        import traceback
        emit(["exc", type(e).__name__, traceback.format_exc()[-1500:]])
        os._exit(1)
