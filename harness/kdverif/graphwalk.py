"""Generic object-graph walk: every attribute (at any depth) that holds a numpy.random.Generator, plus snapshots of the
three process-global generators. No class-specific knowledge: follows __dict__, lists, tuples, dicts, dataclasses."""
import hashlib
import pickle
import random

import numpy as np
import torch

SKIP_TYPES = (str, bytes, int, float, bool, type(None), np.ndarray, torch.Tensor, type)


def walk_generators(obj, path="", seen=None, out=None, depth=0, max_depth=12):
    """returns {path: Generator}; the same Generator object may appear under several paths"""
    if out is None:
        out, seen = {}, set()
    if depth > max_depth or isinstance(obj, SKIP_TYPES):
        return out
    if isinstance(obj, np.random.Generator):
        out[path] = obj
        return out
    if id(obj) in seen:
        return out
    seen.add(id(obj))
    if isinstance(obj, dict):
        for k, v in obj.items():
            if isinstance(k, (str, int)):
                walk_generators(v, f"{path}[{k!r}]", seen, out, depth + 1, max_depth)
        return out
    if isinstance(obj, (list, tuple)):
        for i, v in enumerate(obj):
            walk_generators(v, f"{path}[{i}]", seen, out, depth + 1, max_depth)
        return out
    d = getattr(obj, "__dict__", None)
    if isinstance(d, dict):
        mod = type(obj).__module__ or ""
        if mod.startswith(("logging", "threading", "multiprocessing", "torch.utils.data.dataloader")):
            return out
        for k, v in d.items():
            if k in ("logger",):
                continue
            walk_generators(v, f"{path}.{k}", seen, out, depth + 1, max_depth)
    return out


def gen_state(g):
    s = g.bit_generator.state
    return hashlib.sha256(pickle.dumps((s["bit_generator"], s["state"], s.get("has_uint32"), s.get("uinteger")))).hexdigest()[:16]


def global_states():
    return dict(
        numpy=hashlib.sha256(pickle.dumps(np.random.get_state())).hexdigest()[:16],
        torch=hashlib.sha256(torch.get_rng_state().numpy().tobytes()).hexdigest()[:16],
        python=hashlib.sha256(pickle.dumps(random.getstate())).hexdigest()[:16],
    )


def perturb_globals(seed):
    np.random.seed(seed % (2 ** 31))
    torch.manual_seed(seed)
    random.seed(seed)


def canon(obj, h=None):
    """canonical digest of an output (tensors, arrays, PIL images, numbers, strings, containers, dict contexts)"""
    top = h is None
    if top:
        h = hashlib.sha256()
    if torch.is_tensor(obj):
        h.update(b"T")
        h.update(str(tuple(obj.shape)).encode())
        h.update(str(obj.dtype).encode())
        h.update(obj.detach().cpu().contiguous().numpy().tobytes())
    elif isinstance(obj, np.ndarray):
        h.update(b"N")
        h.update(str(obj.shape).encode())
        h.update(str(obj.dtype).encode())
        h.update(np.ascontiguousarray(obj).tobytes())
    elif hasattr(obj, "tobytes") and hasattr(obj, "mode") and hasattr(obj, "size"):
        h.update(b"P")
        h.update(str((obj.mode, obj.size)).encode())
        h.update(obj.tobytes())
    elif isinstance(obj, dict):
        h.update(b"D")
        for k in sorted(obj, key=str):
            h.update(str(k).encode())
            canon(obj[k], h)
    elif isinstance(obj, (list, tuple)):
        h.update(b"L" + str(len(obj)).encode())
        for v in obj:
            canon(v, h)
    elif isinstance(obj, (np.generic,)):
        h.update(b"G" + repr(obj.item()).encode())
    elif isinstance(obj, float):
        h.update(b"F" + repr(obj).encode())
    else:
        h.update(b"O" + repr(obj).encode())
    if top:
        return h.hexdigest()[:20]
    return None


class ClassIds:
    """first distinct digest in a trace = 1, next = 2, ..."""

    def __init__(self):
        self.ids = {}

    def __call__(self, digest):
        if digest not in self.ids:
            self.ids[digest] = len(self.ids) + 1
        return self.ids[digest]
